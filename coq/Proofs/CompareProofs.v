(* Proofs about Model/Compare.v *)
From Coq Require Import ZArith List Bool Lia.
From OV Require Import Base.Bytes Base.Wire Model.Compare.
Import ListNotations.
Open Scope Z_scope.

Lemma bytes_eqb_refl a : bytes_eqb a a = true.
Proof. induction a; simpl; [reflexivity|]. now rewrite Z.eqb_refl. Qed.
Lemma oprefix_eqb_refl p : oprefix_eqb p p = true.
Proof. destruct p; simpl; [apply bytes_eqb_refl | reflexivity]. Qed.
Lemma svc_eqb_refl s : svc_eqb s s = true.
Proof. unfold svc_eqb. now rewrite !Z.eqb_refl. Qed.

Lemma mem_svc_In s l : In s l -> mem_svc s l = true.
Proof. intros H. apply existsb_exists. exists s. split; [exact H | apply svc_eqb_refl]. Qed.
Lemma mem_name_In s l : In s l -> mem_name (sv_name s) l = true.
Proof. intros H. apply existsb_exists. exists s. split; [exact H | apply Z.eqb_refl]. Qed.
Lemma mem_prefix_In s l : In s l -> mem_prefix (sv_prefix s) l = true.
Proof. intros H. apply existsb_exists. exists s. split; [exact H | apply oprefix_eqb_refl]. Qed.

Definition empty_report (r : report) : Prop :=
  r_new r = [] /\ r_deleted r = [] /\ r_renamed r = [] /\ r_changed r = [].

(* names determine the body: no two services of the layer share a short name with different content *)
Definition names_functional (l : list svc) : Prop :=
  forall a b, In a l -> In b l -> sv_name a = sv_name b -> sv_body a = sv_body b.

Lemma inner_self L s1 : forall olds r,
  incl olds L -> In s1 L -> names_functional L -> empty_report r -> empty_report (inner L s1 olds r).
Proof.
  induction olds as [|s2 rest IH]; intros r Hin H1 F E; simpl; [exact E|].
  assert (I2 : In s2 L) by (apply Hin; now left).
  destruct (sv_name s1 =? sv_name s2) eqn:En.
  - apply Z.eqb_eq in En. rewrite (F s1 s2 H1 I2 En), Z.eqb_refl. simpl.
    apply IH; auto. intros x Hx. apply Hin. now right.
  - simpl. apply IH; auto. intros x Hx. apply Hin. now right.
Qed.

Lemma fold_self L : forall news r,
  incl news L -> names_functional L -> empty_report r ->
  empty_report (fold_left (outer_step L L) news r).
Proof.
  induction news as [|s1 news IH]; intros r Hin F E; simpl; [exact E|].
  apply IH; [intros x Hx; apply Hin; now right | exact F |].
  assert (I1 : In s1 L) by (apply Hin; now left).
  unfold outer_step. rewrite (mem_svc_In s1 L I1). simpl.
  apply inner_self; auto. apply incl_refl.
Qed.

(* comparing a layer with itself reports no change *)
Lemma deleted_pass_self L : forall olds, incl olds L -> deleted_pass L olds = [].
Proof.
  unfold deleted_pass. induction olds as [|s2 olds IH]; intros Hin; simpl; [reflexivity|].
  rewrite (mem_name_In s2 L (Hin s2 (or_introl eq_refl))). simpl. apply IH. intros x Hx. apply Hin. now right.
Qed.

Theorem self_empty L : names_functional L -> empty_report (compare_layers L L).
Proof.
  intros F. unfold compare_layers.
  assert (E : empty_report (fold_left (outer_step L L) L (mkR [] [] [] [])))
    by (apply fold_self; [apply incl_refl | exact F | repeat split]).
  destruct E as (E1 & E2 & E3 & E4). unfold empty_report. simpl.
  rewrite E1, E2, E3, E4, (deleted_pass_self L L (incl_refl L)). repeat split.
Qed.

Ltac crush :=
  repeat match goal with
         | |- context [match rename_partner ?n ?p ?l with _ => _ end] => destruct (rename_partner n p l)
         | |- context [if ?c then _ else _] => destruct c
         end; simpl; auto; try (apply in_app_iff; auto).

Lemma inner_new news o : forall s1 r0, r_new (inner news s1 o r0) = r_new r0.
Proof. induction o as [|s2 o IH]; intros s1 r0; simpl; [reflexivity|]. rewrite IH. crush. Qed.
Lemma inner_renamed news o : forall s1 r0, r_renamed (inner news s1 o r0) = r_renamed r0.
Proof. induction o as [|s2 o IH]; intros s1 r0; simpl; [reflexivity|]. rewrite IH. crush. Qed.

Lemma outer_new_mono news olds r a x : In x (r_new r) -> In x (r_new (outer_step news olds r a)).
Proof. intros Hx. unfold outer_step. rewrite inner_new. crush. Qed.
Lemma outer_renamed_mono news olds r a x : In x (r_renamed r) -> In x (r_renamed (outer_step news olds r a)).
Proof. intros Hx. unfold outer_step. rewrite inner_renamed. crush. Qed.

Lemma fold_new_mono news olds l : forall r x, In x (r_new r) -> In x (r_new (fold_left (outer_step news olds) l r)).
Proof. induction l as [|a l IH]; intros r x Hx; simpl; [exact Hx|]. apply IH. now apply outer_new_mono. Qed.
Lemma fold_renamed_mono news olds l : forall r x,
  In x (r_renamed r) -> In x (r_renamed (fold_left (outer_step news olds) l r)).
Proof. induction l as [|a l IH]; intros r x Hx; simpl; [exact Hx|]. apply IH. now apply outer_renamed_mono. Qed.

Lemma not_mem_svc s olds : mem_name (sv_name s) olds = false -> mem_svc s olds = false.
Proof.
  intros Hn. apply not_true_is_false. intros T. apply existsb_exists in T as (x & Hx & Ex).
  unfold svc_eqb in Ex. apply andb_true_iff in Ex as [Ex _].
  assert (mem_name (sv_name s) olds = true)
    by (apply existsb_exists; exists x; split; [exact Hx | now rewrite Z.eqb_sym]).
  congruence.
Qed.

(* a service whose name and request prefix are both unknown to the old layer is reported as new *)
Theorem added_service_is_new news olds s :
  In s news -> mem_name (sv_name s) olds = false -> mem_prefix (sv_prefix s) olds = false ->
  In (sv_name s) (r_new (compare_layers news olds)).
Proof.
  intros Hin Hn Hp. unfold compare_layers. cbn [r_new].
  assert (Step : forall l r, In s l -> In (sv_name s) (r_new (fold_left (outer_step news olds) l r))).
  { induction l as [|a l IH]; intros r Hs; [contradiction|]. simpl. destruct Hs as [->|Hs]; [|now apply IH].
    apply fold_new_mono. unfold outer_step. rewrite inner_new, (not_mem_svc s olds Hn), Hp, Hn. simpl.
    apply in_app_iff. right. now left. }
  now apply Step.
Qed.

(* a service which kept its request prefix but changed its name is reported as renamed *)
Lemma find_by_prefix_mem p olds s : find_by_prefix p olds = Some s -> mem_prefix p olds = true.
Proof.
  induction olds as [|o olds IH]; simpl; [discriminate|].
  destruct (oprefix_eqb p (sv_prefix o)); [reflexivity | exact IH].
Qed.
Lemma find_vanished_mem news p olds s : find_vanished news p olds = Some s -> mem_prefix p olds = true.
Proof.
  induction olds as [|o olds IH]; simpl; [discriminate|].
  destruct (oprefix_eqb p (sv_prefix o)); simpl; [reflexivity|exact IH].
Qed.
Lemma rename_partner_mem news p olds s : rename_partner news p olds = Some s -> mem_prefix p olds = true.
Proof.
  unfold rename_partner. destruct (find_vanished news p olds) eqn:E.
  - intros _. eapply find_vanished_mem; eauto.
  - apply find_by_prefix_mem.
Qed.

Theorem renamed_service_is_reported news olds s s_old :
  In s news -> mem_name (sv_name s) olds = false ->
  rename_partner news (sv_prefix s) olds = Some s_old ->
  In (sv_name s, sv_name s_old) (r_renamed (compare_layers news olds)).
Proof.
  intros Hin Hn Hf. unfold compare_layers. cbn [r_renamed].
  assert (Mp : mem_prefix (sv_prefix s) olds = true) by (eapply rename_partner_mem; eauto).
  assert (Step : forall l r, In s l -> In (sv_name s, sv_name s_old) (r_renamed (fold_left (outer_step news olds) l r))).
  { induction l as [|a l IH]; intros r Hs; [contradiction|]. simpl. destruct Hs as [->|Hs]; [|now apply IH].
    apply fold_renamed_mono. unfold outer_step. rewrite inner_renamed, (not_mem_svc s olds Hn), Hn, Mp, Hf. simpl.
    destruct (negb (sv_body s =? sv_body s_old)); simpl; apply in_app_iff; right; now left. }
  now apply Step.
Qed.

(* the partner of an actual rename edit: the old layer is pre ++ s_old :: post, the name of s_old
   does not occur in the new layer, every service in front of it which shares the request prefix
   still exists under its name -- whatever else shares the prefix *)
Lemma rename_partner_of_edit news pre post s_old p :
  oprefix_eqb p (sv_prefix s_old) = true ->
  mem_name (sv_name s_old) news = false ->
  (forall o, In o pre -> oprefix_eqb p (sv_prefix o) = true -> mem_name (sv_name o) news = true) ->
  rename_partner news p (pre ++ s_old :: post) = Some s_old.
Proof.
  intros Hp Hv Hpre. unfold rename_partner.
  assert (F : find_vanished news p (pre ++ s_old :: post) = Some s_old).
  { induction pre as [|o pre IH]; simpl.
    - now rewrite Hp, Hv.
    - destruct (oprefix_eqb p (sv_prefix o)) eqn:Eo; simpl.
      + rewrite (Hpre o (or_introl eq_refl) Eo). simpl. apply IH. intros x Hx. apply Hpre. now right.
      + apply IH. intros x Hx. apply Hpre. now right. }
  now rewrite F.
Qed.

Theorem rename_edit_is_reported news pre post s s_old :
  In s news -> mem_name (sv_name s) (pre ++ s_old :: post) = false ->
  oprefix_eqb (sv_prefix s) (sv_prefix s_old) = true ->
  mem_name (sv_name s_old) news = false ->
  (forall o, In o pre -> oprefix_eqb (sv_prefix s) (sv_prefix o) = true -> mem_name (sv_name o) news = true) ->
  In (sv_name s, sv_name s_old) (r_renamed (compare_layers news (pre ++ s_old :: post))).
Proof.
  intros Hin Hn Hp Hv Hpre. apply renamed_service_is_reported; auto.
  now apply rename_partner_of_edit.
Qed.

(* a service of the old layer whose name and request prefix are both gone is reported as deleted,
   whatever the new layer contains (also nothing at all) *)
Theorem deleted_service_is_reported news olds s :
  In s olds -> mem_name (sv_name s) news = false -> mem_prefix (sv_prefix s) news = false ->
  In (sv_name s) (r_deleted (compare_layers news olds)).
Proof.
  intros Hin Hn Hp. unfold compare_layers. cbn [r_deleted]. apply in_or_app. right.
  unfold deleted_pass. apply in_map. apply filter_In. split; [exact Hin|]. now rewrite Hn, Hp.
Qed.

(* ... and nothing else is: a reported deletion is a service of the old layer whose name vanished *)
Lemma inner_deleted news o : forall s1 r0, r_deleted (inner news s1 o r0) = r_deleted r0.
Proof. induction o as [|s2 o IH]; intros s1 r0; simpl; [reflexivity|]. rewrite IH. crush. Qed.
Lemma fold_deleted news olds l : forall r, r_deleted (fold_left (outer_step news olds) l r) = r_deleted r.
Proof.
  induction l as [|a l IH]; intros r; simpl; [reflexivity|]. rewrite IH. unfold outer_step.
  rewrite inner_deleted. crush.
Qed.
Theorem reported_deletion_is_real news olds n :
  In n (r_deleted (compare_layers news olds)) ->
  exists s, In s olds /\ sv_name s = n /\ mem_name n news = false.
Proof.
  unfold compare_layers. cbn [r_deleted]. rewrite fold_deleted. simpl. unfold deleted_pass.
  intros H. apply in_map_iff in H as (s & <- & Hs). apply filter_In in Hs as [Hin Hc].
  apply andb_true_iff in Hc as [Hc _]. exists s. repeat split; auto. now apply negb_true_iff in Hc.
Qed.

(* the behaviour before the fix commit: the rename branch was unreachable *)
Example compare_examples :
  let L := [mkSvc 1 (Some [34; 1]) 7 1; mkSvc 2 (Some [16]) 8 2] in
  compare_layers (mkSvc 3 (Some [62]) 9 3 :: L) L = mkR [3] [] [] [] /\
  compare_layers L (mkSvc 3 (Some [62]) 9 3 :: L) = mkR [] [3] [] [] /\
  compare_layers [mkSvc 5 (Some [34; 1]) 7 5; mkSvc 2 (Some [16]) 8 2] L = mkR [] [] [(5, 1)] [] /\
  compare_layers [mkSvc 1 (Some [34; 1]) 70 1; mkSvc 2 (Some [16]) 8 2] L = mkR [] [] [] [1] /\
  (* two services share a request prefix, the second one is renamed *)
  compare_layers [mkSvc 1 (Some [16]) 7 1; mkSvc 5 (Some [16]) 8 5] [mkSvc 1 (Some [16]) 7 1; mkSvc 2 (Some [16]) 8 2] = mkR [] [] [(5, 2)] [].
Proof. vm_compute. repeat split. Qed.
