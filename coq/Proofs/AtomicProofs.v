(* The atomic layer of the codec: what emplace_atomic writes, bit by bit, and that
   extract_atomic reads it back -- for every bit length, bit position and byte order. *)
From Coq Require Import ZArith List Bool Lia.
From OV Require Import Base.Bytes Base.Wire Model.Str Model.Codec Proofs.BytesProofs.
Import ListNotations.
Open Scope Z_scope.

Ltac Zify.zify_post_hook ::= Z.div_mod_to_equations.

(* ------------------------------------------------------------------ *)
(* bytes and bits *)
Lemma byte_of_bits x : 0 <= x -> (forall i, 8 <= i -> Z.testbit x i = false) -> x < 256.
Proof.
  intros Hx H. assert (E : x mod 2 ^ 8 = x).
  { apply Z.bits_inj'. intros n Hn. destruct (Z.lt_ge_cases n 8).
    - now rewrite Z.mod_pow2_bits_low.
    - rewrite Z.mod_pow2_bits_high by lia. symmetry. now apply H. }
  pose proof (Z.mod_pos_bound x (2 ^ 8) ltac:(lia)). change (2 ^ 8) with 256 in *. lia.
Qed.

Lemma byte_high_bits x i : 0 <= x < 256 -> 8 <= i -> Z.testbit x i = false.
Proof.
  intros Hx Hi. destruct (Z.eq_dec x 0) as [->|N]; [apply Z.bits_0|].
  apply Z.bits_above_log2; [lia|]. apply Z.log2_lt_pow2; [lia|].
  eapply Z.lt_le_trans with (m := 2 ^ 8); [change (2 ^ 8) with 256; lia | apply Z.pow_le_mono_r; lia].
Qed.

Lemma byte_ok_iff b : byte_ok b = true <-> 0 <= b < 256.
Proof. unfold byte_ok. rewrite andb_true_iff. lia. Qed.

Lemma masked_byte_ok o c m :
  0 <= o < 256 -> 0 <= c < 256 -> 0 <= m < 256 ->
  0 <= Z.lor (Z.land o (Z.lnot m)) (Z.land c m) < 256.
Proof.
  intros Ho Hc Hm.
  assert (N : 0 <= Z.lor (Z.land o (Z.lnot m)) (Z.land c m)).
  { apply Z.lor_nonneg. split; apply Z.land_nonneg; lia. }
  split; [exact N|]. apply byte_of_bits; [exact N|]. intros i Hi.
  rewrite Z.lor_spec, !Z.land_spec, (byte_high_bits o i), (byte_high_bits c i) by lia. reflexivity.
Qed.

Lemma bytes_ok_nth l j : bytes_ok l = true -> 0 <= nth j l 0 < 256.
Proof.
  intros H. destruct (Nat.lt_ge_cases j (List.length l)) as [L|G].
  - unfold bytes_ok in H. rewrite forallb_forall in H. apply byte_ok_iff, H. now apply nth_In.
  - rewrite nth_overflow by lia. lia.
Qed.

(* ------------------------------------------------------------------ *)
(* masked_write *)
Lemma masked_write_length : forall O C M,
  List.length O = List.length C -> List.length C = List.length M ->
  List.length (masked_write O C M) = List.length O.
Proof.
  induction O as [|o O IH]; intros [|c C] [|m M] H1 H2; simpl in *; try lia.
  f_equal. apply IH; lia.
Qed.

Lemma nth_masked_write : forall O C M j,
  List.length O = List.length C -> List.length C = List.length M -> (j < List.length O)%nat ->
  nth j (masked_write O C M) 0 =
  Z.lor (Z.land (nth j O 0) (Z.lnot (nth j M 0))) (Z.land (nth j C 0) (nth j M 0)).
Proof.
  induction O as [|o O IH]; intros [|c C] [|m M] j H1 H2 Hj; simpl in *; try lia.
  destruct j as [|j]; [reflexivity|]. apply IH; lia.
Qed.

Lemma masked_write_ok : forall O C M,
  List.length O = List.length C -> List.length C = List.length M ->
  bytes_ok O = true -> bytes_ok C = true -> bytes_ok M = true ->
  bytes_ok (masked_write O C M) = true.
Proof.
  induction O as [|o O IH]; intros [|c C] [|m M] H1 H2 HO HC HM; simpl in *; try lia; try reflexivity.
  apply andb_true_iff in HO as [o1 o2], HC as [c1 c2], HM as [m1 m2].
  apply andb_true_iff. split.
  - apply byte_ok_iff. apply masked_byte_ok; now apply byte_ok_iff.
  - apply IH; auto; lia.
Qed.

Lemma masked_write_rev : forall O C M,
  List.length O = List.length C -> List.length C = List.length M ->
  rev (masked_write O C M) = masked_write (rev O) (rev C) (rev M).
Proof.
  intros O C M H1 H2. apply nth_ext with (d := 0) (d' := 0).
  - rewrite rev_length, !masked_write_length; rewrite ?rev_length; lia.
  - intros j Hj. rewrite rev_length, masked_write_length in Hj by lia.
    rewrite rev_nth by (rewrite masked_write_length; lia).
    rewrite masked_write_length by lia.
    rewrite !nth_masked_write; rewrite ?rev_length; try lia.
    rewrite !rev_nth by lia. rewrite <- !H2, <- !H1. reflexivity.
Qed.

(* ------------------------------------------------------------------ *)
(* the mask and the data as shifted integers *)
Lemma mask_bits bl bp i : 0 <= bl -> 0 <= bp -> 0 <= i ->
  Z.testbit ((2 ^ bl - 1) * 2 ^ bp) i = (bp <=? i) && (i <? bp + bl).
Proof.
  intros Hbl Hbp Hi.
  replace (2 ^ bl - 1) with (Z.ones bl) by (rewrite Z.ones_equiv; lia).
  rewrite <- Z.shiftl_mul_pow2 by lia.
  destruct (Z.leb_spec bp i).
  - rewrite Z.shiftl_spec by lia. destruct (Z.ltb_spec i (bp + bl)).
    + now rewrite Z.ones_spec_low by lia.
    + now rewrite Z.ones_spec_high by lia.
  - now rewrite Z.shiftl_spec_low by lia.
Qed.

Lemma data_bits raw bp i : 0 <= bp -> 0 <= i ->
  Z.testbit (raw * 2 ^ bp) i = (bp <=? i) && Z.testbit raw (i - bp).
Proof.
  intros Hbp Hi. rewrite <- Z.shiftl_mul_pow2 by lia.
  destruct (Z.leb_spec bp i).
  - now rewrite Z.shiftl_spec by lia.
  - now rewrite Z.shiftl_spec_low by lia.
Qed.

(* ------------------------------------------------------------------ *)
(* C02 at the atomic level: every bit of the written region *)
Section Region.
  Variables (O : list Z) (raw bl bp : Z) (n : nat).
  Hypothesis HO : bytes_ok O = true.
  Hypothesis Hn : List.length O = n.
  Hypothesis Hbl : 0 < bl.
  Hypothesis Hbp : 0 <= bp.
  Hypothesis Hsz : bl + bp <= 8 * Z.of_nat n.
  Hypothesis Hraw : 0 <= raw < 2 ^ bl.

  Let C := to_be n (raw * 2 ^ bp).
  Let M := to_be n ((2 ^ bl - 1) * 2 ^ bp).
  Let New := masked_write O C M.

  Lemma region_length : List.length New = n.
  Proof. unfold New. rewrite masked_write_length; unfold C, M; rewrite ?to_be_length; lia. Qed.

  Lemma region_ok : bytes_ok New = true.
  Proof.
    unfold New. apply masked_write_ok; unfold C, M; rewrite ?to_be_length; auto using to_be_ok; lia.
  Qed.

  (* bit k of byte j (from the left) is bit i = 8*(n-1-j)+k of the region read
     big-endian: inside [bp, bp+bl) it is bit i-bp of the raw value, everywhere
     else it keeps its previous value *)
  Lemma region_bits j k : (j < n)%nat -> 0 <= k < 8 ->
    let i := 8 * Z.of_nat (n - 1 - j) + k in
    Z.testbit (nth j New 0) k =
    if (bp <=? i) && (i <? bp + bl) then Z.testbit raw (i - bp) else Z.testbit (nth j O 0) k.
  Proof.
    intros Hj Hk i. unfold New.
    rewrite nth_masked_write by (unfold C, M; rewrite ?to_be_length; lia).
    rewrite Z.lor_spec, !Z.land_spec, Z.lnot_spec by lia.
    unfold C, M. rewrite !testbit_to_be by lia. fold i.
    rewrite mask_bits, data_bits by (unfold i; lia).
    destruct (bp <=? i), (i <? bp + bl), (Z.testbit (nth j O 0) k), (Z.testbit raw (i - bp)); reflexivity.
  Qed.

  (* reading the region back *)
  Lemma region_read : (be_int New / 2 ^ bp) mod 2 ^ bl = raw.
  Proof.
    apply Z.bits_inj'. intros t Ht.
    destruct (Z.lt_ge_cases t bl) as [L|G].
    - rewrite Z.mod_pow2_bits_low by lia. rewrite Z.div_pow2_bits by lia.
      destruct (bit_decompose n (t + bp)) as (j & k & Hj & Hk & E); [lia|].
      rewrite E. rewrite <- region_length at 1.
      rewrite testbit_be_int; rewrite ?region_length; auto using region_ok.
      rewrite region_bits by assumption. cbv zeta. rewrite <- E.
      replace ((bp <=? t + bp) && (t + bp <? bp + bl)) with true by lia.
      f_equal. lia.
    - rewrite Z.mod_pow2_bits_high by lia. symmetry.
      destruct (Z.eq_dec raw 0) as [->|N]; [apply Z.bits_0|].
      apply Z.bits_above_log2; [lia|]. apply Z.log2_lt_pow2; [lia|].
      eapply Z.lt_le_trans; [apply Hraw | apply Z.pow_le_mono_r; lia].
  Qed.
End Region.

(* ------------------------------------------------------------------ *)
(* list surgery used by emplace_bytes *)
Lemma take_length n l : 0 <= n <= blen l -> blen (take n l) = n.
Proof. unfold blen, take. intros H. rewrite firstn_length. lia. Qed.
Lemma drop_length n l : 0 <= n <= blen l -> blen (drop n l) = blen l - n.
Proof. unfold blen, drop. intros H. rewrite skipn_length. lia. Qed.

Lemma slice_splice pos new b :
  0 <= pos -> pos + blen new <= blen b -> slice pos (blen new) (splice pos new b) = new.
Proof.
  intros Hp Hl. unfold slice, splice, take, drop.
  assert (L : List.length (firstn (Z.to_nat pos) b) = Z.to_nat pos)
    by (rewrite firstn_length; unfold blen in *; lia).
  rewrite skipn_app, L, Nat.sub_diag. rewrite skipn_all2 by lia. simpl.
  rewrite firstn_app. unfold blen. rewrite Nat2Z.id, Nat.sub_diag, firstn_all. simpl. apply app_nil_r.
Qed.

Lemma splice_length pos new b :
  0 <= pos -> pos + blen new <= blen b -> blen (splice pos new b) = blen b.
Proof.
  intros Hp Hl. unfold splice. rewrite !blen_app, take_length, drop_length; pose proof (blen_nonneg new); lia.
Qed.

Lemma zeros_length n : blen (zeros n) = Z.max 0 n.
Proof. unfold blen, zeros. rewrite repeat_length. lia. Qed.
Lemma grow_length n b : blen (grow n b) = Z.max n (blen b).
Proof. unfold grow. rewrite blen_app, zeros_length. pose proof (blen_nonneg b). lia. Qed.

Lemma bytes_ok_app a b : bytes_ok (a ++ b) = bytes_ok a && bytes_ok b.
Proof. unfold bytes_ok. apply forallb_app. Qed.
Lemma zeros_ok n : bytes_ok (zeros n) = true.
Proof. unfold zeros, bytes_ok. apply forallb_forall. intros x H. apply repeat_spec in H. now subst. Qed.
Lemma grow_ok n b : bytes_ok b = true -> bytes_ok (grow n b) = true.
Proof. intros H. unfold grow. now rewrite bytes_ok_app, H, zeros_ok. Qed.
Lemma bytes_ok_firstn n b : bytes_ok b = true -> bytes_ok (firstn n b) = true.
Proof.
  unfold bytes_ok. rewrite !forallb_forall. intros H x Hx. apply H.
  rewrite <- (firstn_skipn n b). apply in_app_iff. now left.
Qed.
Lemma bytes_ok_skipn n b : bytes_ok b = true -> bytes_ok (skipn n b) = true.
Proof.
  unfold bytes_ok. rewrite !forallb_forall. intros H x Hx. apply H.
  rewrite <- (firstn_skipn n b). apply in_app_iff. now right.
Qed.
Lemma slice_ok pos n b : bytes_ok b = true -> bytes_ok (slice pos n b) = true.
Proof. intros H. unfold slice, take, drop. now apply bytes_ok_firstn, bytes_ok_skipn. Qed.
Lemma slice_length pos n b : 0 <= pos -> 0 <= n -> pos + n <= blen b -> blen (slice pos n b) = n.
Proof. intros. unfold slice. rewrite take_length; [lia|]. rewrite drop_length; lia. Qed.

(* ------------------------------------------------------------------ *)
(* emplace_atomic followed by extract_atomic at the same position *)
Definition dview (s : estate) (cur bit : Z) (lk : list (list Z * Z)) : dstate :=
  mkD (e_msg s) 0 cur bit lk.

Lemma nbytes_pos bl bp : 0 < bl -> 0 <= bp -> 0 < nbytes_of bl bp /\ bl + bp <= 8 * nbytes_of bl bp.
Proof. unfold nbytes_of. intros. lia. Qed.

Theorem emplace_then_extract s v bl bt en hl s' raw lk :
  0 < bl -> 0 <= e_cur s -> 0 <= e_bit s -> bytes_ok (e_msg s) = true ->
  raw_of v bl bt en hl = Ok raw -> 0 <= raw < 2 ^ bl ->
  emplace_atomic s v bl bt en hl None = Ok s' ->
  extract_atomic (dview s' (e_cur s) (e_bit s) lk) bl bt en hl =
  (do v' <- value_of_raw raw bl bt en hl;
   Ok (v', mkD (e_msg s') 0 (e_cur s') 0 lk))
  /\ e_cur s' = e_cur s + nbytes_of bl (e_bit s) /\ bytes_ok (e_msg s') = true.
Proof.
  intros Hbl Hcur Hbit Hok Hraw Hrng H.
  unfold emplace_atomic in H. rewrite Hraw in H. cbn [bind] in H.
  replace (bl =? 0) with false in H by lia.
  destruct (is_numeric bt && (64 <? bl)) eqn:Ewide; [discriminate|].
  set (bp := e_bit s) in *. set (n := nbytes_of bl bp) in *.
  destruct (nbytes_pos bl bp Hbl Hbit) as [Hn1 Hn2]. fold n in Hn1, Hn2.
  replace (negb (bp =? 0) && (256 ^ n <=? (2 ^ bl - 1) * 2 ^ bp)) with false in H.
  2:{ symmetry. apply andb_false_iff. right. apply Z.leb_gt.
      replace n with (Z.of_nat (Z.to_nat n)) by lia. rewrite pow256.
      apply Z.lt_le_trans with (m := 2 ^ bl * 2 ^ bp).
      - pose proof (Z.pow_pos_nonneg 2 bp ltac:(lia) ltac:(lia)). nia.
      - rewrite <- Z.pow_add_r by lia. apply Z.pow_le_mono_r; lia. }
  unfold emplace_bytes in H. cbn [e_bit set_bit] in H. simpl (negb (0 =? 0)) in H. cbv iota in H.
  cbn [e_cur set_bit e_msg e_used] in H.
  set (flip := negb hl && is_numeric bt) in *.
  set (C := to_be (Z.to_nat n) (raw * 2 ^ bp)) in *.
  set (M := to_be (Z.to_nat n) ((2 ^ bl - 1) * 2 ^ bp)) in *.
  assert (LC : blen (if flip then rev C else C) = n).
  { destruct flip; rewrite ?blen_rev; unfold blen, C; rewrite to_be_length; lia. }
  assert (LM : blen (if flip then rev M else M) = n).
  { destruct flip; rewrite ?blen_rev; unfold blen, M; rewrite to_be_length; lia. }
  rewrite LC in H. rewrite LM in H. replace (n <? n) with false in H by lia.
  set (pos := e_cur s) in *.
  set (msg := grow (pos + n) (e_msg s)) in *.
  assert (Lmsg : pos + n <= blen msg) by (unfold msg; rewrite grow_length; lia).
  assert (Omsg : bytes_ok msg = true) by (unfold msg; now apply grow_ok).
  set (O := slice pos n msg) in *.
  assert (LO : blen O = n) by (unfold O; apply slice_length; lia).
  assert (OO : bytes_ok O = true) by (unfold O; now apply slice_ok).
  injection H as <-. cbn [e_cur e_msg dview].
  assert (Tk : take n (if flip then rev M else M) = (if flip then rev M else M)).
  { unfold take. rewrite <- LM. unfold blen. rewrite Nat2Z.id. apply firstn_all. }
  rewrite Tk.
  set (New := masked_write O (if flip then rev C else C) (if flip then rev M else M)).
  assert (LNew : blen New = n).
  { unfold New, blen. rewrite masked_write_length; unfold blen in *; lia. }
  assert (ONew : bytes_ok New = true).
  { unfold New. apply masked_write_ok; unfold blen in *; try lia; auto;
      destruct flip; rewrite ?bytes_ok_rev; unfold C, M; apply to_be_ok. }
  split; [| split; [reflexivity|]].
  - unfold extract_atomic, dview. cbn [d_bit d_cur d_msg d_origin d_lkeys e_msg e_cur].
    replace (bl =? 0) with false by lia. fold bp n.
    rewrite splice_length by lia.
    replace (blen msg <? pos + n) with false by lia.
    replace (negb (is_numeric bt) && negb (bl mod 8 =? 0)) with false.
    2:{ symmetry. apply andb_false_iff.
        destruct (is_numeric bt) eqn:En; [now left | right].
        (* byte-like types: raw_of only succeeds when bl = 8 * length *)
        unfold raw_of in Hraw. destruct bt; try discriminate En;
          repeat match type of Hraw with
                 | match ?x with _ => _ end = _ => destruct x eqn:?; try discriminate
                 end;
          match goal with Hq : (8 * _ =? bl) = true |- _ => apply Z.eqb_eq in Hq; rewrite <- Hq end;
          rewrite Z.mul_comm, Z.mod_mul by lia; reflexivity. }
    rewrite Ewide.
    assert (SS : slice pos n (splice pos New msg) = New) by (rewrite <- LNew at 1; apply slice_splice; lia).
    rewrite !SS.
    fold flip.
    assert (LC0 : List.length C = Z.to_nat n) by (unfold C; apply to_be_length).
    assert (LM0 : List.length M = Z.to_nat n) by (unfold M; apply to_be_length).
    assert (LO0 : List.length O = Z.to_nat n) by (unfold blen in LO; lia).
    assert (R : (be_int (if flip then rev New else New) / 2 ^ bp) mod 2 ^ bl = raw).
    { unfold New. destruct flip.
      - rewrite masked_write_rev by (rewrite ?rev_length; lia).
        rewrite !rev_involutive.
        apply (region_read (rev O) raw bl bp (Z.to_nat n)); rewrite ?bytes_ok_rev, ?rev_length;
          try lia; auto.
      - apply (region_read O raw bl bp (Z.to_nat n)); try lia; auto. }
    rewrite R. destruct (value_of_raw raw bl bt en hl); reflexivity.
  - unfold splice. rewrite !bytes_ok_app. unfold take, drop.
    rewrite bytes_ok_firstn, bytes_ok_skipn, ONew by assumption. reflexivity.
Qed.

(* ------------------------------------------------------------------ *)
(* raw value <-> internal value *)
Lemma pow2_pos n : 0 <= n -> 0 < 2 ^ n.
Proof. intros. apply Z.pow_pos_nonneg; lia. Qed.

Lemma pow2_split bl : 0 < bl -> 2 ^ bl = 2 * 2 ^ (bl - 1).
Proof. intros. rewrite <- Z.pow_succ_r by lia. f_equal. lia. Qed.

Lemma bit_len_le v bl : 0 <= v -> 0 <= bl -> (bit_len v <= bl <-> v < 2 ^ bl).
Proof.
  intros Hv Hbl. unfold bit_len. destruct (Z.eqb_spec v 0) as [->|N].
  - pose proof (pow2_pos bl Hbl). lia.
  - rewrite Z.abs_eq by lia. split; intros H.
    + apply Z.log2_lt_pow2; lia.
    + apply Z.log2_lt_pow2 in H; lia.
Qed.

(* signed integers: acceptance implies representability and an exact round trip
   (two's complement, one's complement, sign-magnitude; any bit length) *)
Theorem int_raw_roundtrip z bl en hl raw :
  0 < bl -> (en = None \/ en = Some Enc2C \/ en = Some Enc1C \/ en = Some EncSM) ->
  raw_of (VInt z) bl BInt en hl = Ok raw ->
  0 <= raw < 2 ^ bl /\ value_of_raw raw bl BInt en hl = Ok (VInt z).
Proof.
  intros Hbl Hen H. pose proof (pow2_split bl Hbl) as P. pose proof (pow2_pos (bl - 1) ltac:(lia)) as Q.
  unfold raw_of in H. unfold value_of_raw.
  destruct Hen as [-> | [-> | [-> | ->]]];
    replace (0 <? bl) with true in H by lia; cbn [andb] in H;
    match type of H with (if ?c then _ else _) = _ => destruct c eqn:Erng; [discriminate|] end;
    apply orb_false_iff in Erng as [E1 E2];
    match type of H with (if ?c then _ else _) = _ => destruct c eqn:Ebl; [discriminate|] end;
    injection H as <-;
    destruct (0 <=? z) eqn:Ez;
    (split; [lia|]); f_equal; f_equal;
    repeat match goal with |- context [if ?c then _ else _] => destruct c eqn:? end; lia.
Qed.

(* a signed integer without any bit: zero is the only value which is accepted (the hypothesis 0 < bl of the theorem
   above is what pointed at this case: before the fix commit "a signed integer of zero bits" -1 was accepted too,
   and nothing was written) *)
Theorem int_raw_zero_bits z en hl raw :
  (en = None \/ en = Some Enc2C \/ en = Some Enc1C \/ en = Some EncSM) ->
  raw_of (VInt z) 0 BInt en hl = Ok raw -> z = 0 /\ raw = 0.
Proof.
  intros Hen H. unfold raw_of in H.
  destruct Hen as [-> | [-> | [-> | ->]]];
    change (0 <? 0) with false in H; cbn [andb] in H;
    match type of H with (if ?c then _ else _) = _ => destruct c eqn:Erng; [discriminate|] end;
    apply orb_false_iff in Erng as [E1 E2];
    assert (z = 0) as -> by lia; cbn in H; injection H as <-; split; reflexivity.
Qed.
Example int_raw_zero_bits_rejects :
  raw_of (VInt (-1)) 0 BInt None true = Err ERej /\ raw_of (VInt 1) 0 BInt None true = Err ERej /\
  raw_of (VInt 0) 0 BInt None true = Ok 0.
Proof. repeat split. Qed.

(* unsigned integers without encoding *)
Theorem uint_raw_roundtrip z bl en hl raw :
  0 <= bl -> (en = None \/ en = Some EncNONE) ->
  raw_of (VInt z) bl BUint en hl = Ok raw ->
  0 <= raw < 2 ^ bl /\ value_of_raw raw bl BUint en hl = Ok (VInt z).
Proof.
  intros Hbl Hen H. unfold raw_of in H. unfold value_of_raw.
  destruct (z <? 0) eqn:Ez; [discriminate|].
  destruct Hen as [-> | ->];
    (destruct (bl <? bit_len z) eqn:Eb; [discriminate|]; injection H as <-;
     split; [split; [lia|]; apply bit_len_le; lia | reflexivity]).
Qed.

(* byte fields *)
Theorem bytes_raw_roundtrip b bl en hl raw :
  bytes_ok b = true ->
  raw_of (VBytes b) bl BBytes en hl = Ok raw ->
  0 <= raw < 2 ^ bl /\ value_of_raw raw bl BBytes en hl = Ok (VBytes b).
Proof.
  intros Hb H. unfold raw_of in H. unfold value_of_raw.
  assert (K : forall (c : bool), (if 8 * blen b =? bl then Ok (be_int b) else Err ERej) = Ok raw ->
              0 <= raw < 2 ^ bl /\ Ok (VBytes (to_be (Z.to_nat ((bl + 7) / 8)) raw)) = Ok (VBytes b)).
  { intros _ E. destruct (Z.eqb_spec (8 * blen b) bl) as [Hl|]; [|discriminate]. injection E as <-.
    pose proof (be_int_bounds b Hb) as B. rewrite pow256 in B. unfold blen in Hl.
    split; [now rewrite <- Hl|].
    replace (Z.to_nat ((bl + 7) / 8)) with (List.length b) by lia.
    now rewrite to_be_be_int. }
  destruct en as [[]|]; try discriminate; now apply (K true).
Qed.

(* latin-1 strings *)
Lemma latin1_enc_spec s b : latin1_enc s = Some b -> b = s /\ bytes_ok s = true.
Proof.
  revert b; induction s as [|c s IH]; simpl; intros b H.
  - injection H as <-. auto.
  - destruct ((0 <=? c) && (c <? 256)) eqn:E; [|discriminate].
    destruct (latin1_enc s) as [b'|]; [|discriminate]. injection H as <-.
    destruct (IH b' eq_refl) as [-> Hs]. split; [reflexivity|].
    unfold byte_ok. now rewrite E, Hs.
Qed.

Theorem latin1_raw_roundtrip s bl hl raw :
  raw_of (VStr s) bl BAscii None hl = Ok raw ->
  0 <= raw < 2 ^ bl /\ value_of_raw raw bl BAscii None hl = Ok (VStr s).
Proof.
  intros H. unfold raw_of in H. unfold value_of_raw. cbn [string_codec str_enc str_dec] in *.
  destruct (latin1_enc s) as [b|] eqn:E; [|discriminate].
  apply latin1_enc_spec in E as [-> Hs].
  destruct (Z.eqb_spec (8 * blen s) bl) as [Hl|]; [|discriminate]. injection H as <-.
  pose proof (be_int_bounds s Hs) as B. rewrite pow256 in B. unfold blen in Hl.
  split; [now rewrite <- Hl|].
  replace (Z.to_nat ((bl + 7) / 8)) with (List.length s) by lia.
  now rewrite to_be_be_int.
Qed.

(* decode then encode at the atomic level (C03): canonical raw values re-encode to
   themselves; the only non-canonical raw values are the negative zeros of
   one's complement and sign-magnitude *)
Definition neg_zero (en : option enc) (bl : Z) : Z :=
  match en with Some Enc1C => 2 ^ bl - 1 | Some EncSM => 2 ^ (bl - 1) | _ => -1 end.

Theorem int_decode_encode raw bl en hl z :
  0 < bl -> 0 <= raw < 2 ^ bl ->
  (en = None \/ en = Some Enc2C \/ en = Some Enc1C \/ en = Some EncSM) ->
  raw <> neg_zero en bl ->
  value_of_raw raw bl BInt en hl = Ok (VInt z) ->
  raw_of (VInt z) bl BInt en hl = Ok raw.
Proof.
  intros Hbl Hraw Hen Hnz H. pose proof (pow2_split bl Hbl) as P. pose proof (pow2_pos (bl - 1) ltac:(lia)) as Q.
  assert (BL : forall r, 0 <= r < 2 ^ bl -> (bl <? bit_len r) = false).
  { intros r Hr. apply Z.ltb_ge. apply bit_len_le; lia. }
  unfold value_of_raw in H. unfold raw_of. unfold neg_zero in Hnz.
  destruct Hen as [-> | [-> | [-> | ->]]];
    injection H as <-;
    replace (0 <? bl) with true by lia; simpl andb;
    destruct (raw <? 2 ^ (bl - 1)) eqn:Es;
    repeat match goal with
           | |- context [0 <=? ?x] => destruct (0 <=? x) eqn:?
           end;
    repeat match goal with
           | |- context [(?a <? ?b) || (?c <? ?d)] => destruct ((a <? b) || (c <? d)) eqn:?
           end;
    try (rewrite BL by lia); try lia; try (f_equal; lia).
Qed.
