(* C18, attribute level: what compare_parameters reports is exactly what differs *)
From Coq Require Import ZArith List Bool Lia.
From OV Require Import Base.Bytes Base.Wire Model.CompareParams.
Import ListNotations.
Open Scope Z_scope.

Lemma oZ_eqb_eq a b : oZ_eqb a b = true <-> a = b.
Proof.
  destruct a, b; cbn; split; intros H; try discriminate; try reflexivity.
  - apply Z.eqb_eq in H. now subst.
  - injection H as ->. apply Z.eqb_refl.
Qed.

Lemma lZ_eqb_eq : forall a b, lZ_eqb a b = true <-> a = b.
Proof.
  induction a as [|x a IH]; destruct b as [|y b]; cbn; split; intros H; try discriminate; try reflexivity.
  - apply andb_true_iff in H as [H1 H2]. apply Z.eqb_eq in H1. apply IH in H2. now subst.
  - injection H as -> ->. rewrite Z.eqb_refl. now apply IH.
Qed.

Lemma in_when b l x : In x (when b l) <-> b = true /\ x = l.
Proof. destruct b; cbn; intuition congruence. Qed.

(* ---------- a parameter compared with itself ---------- *)
Lemma cmp_unit_self u : cmp_unit u u = [].
Proof. destruct u as [a|]; cbn; [now rewrite Z.eqb_refl | reflexivity]. Qed.
Lemma unit_same_refl u : unit_same u u = true.
Proof. destruct u as [a|]; cbn; [apply Z.eqb_refl | reflexivity]. Qed.
Lemma cmp_kind_self k : cmp_kind k k = [].
Proof.
  destruct k as [d v|d vs|i n u p e|]; cbn; rewrite ?Z.eqb_refl; cbn; try reflexivity.
  - replace (lZ_eqb vs vs) with true by (symmetry; now apply lZ_eqb_eq). reflexivity.
  - rewrite unit_same_refl. cbn. destruct e as [v|[d|]|]; cbn; rewrite ?Z.eqb_refl; reflexivity.
Qed.
Theorem compare_self p : compare_params p p = [].
Proof.
  unfold compare_params. rewrite !Z.eqb_refl.
  replace (oZ_eqb (q_pos p) (q_pos p)) with true by (symmetry; now apply oZ_eqb_eq).
  replace (oZ_eqb (q_bits p) (q_bits p)) with true by (symmetry; now apply oZ_eqb_eq).
  replace (oZ_eqb (q_sem p) (q_sem p)) with true by (symmetry; now apply oZ_eqb_eq).
  unfold cmp_tail. replace (oZ_eqb (q_bitpos p) (q_bitpos p)) with true by (symmetry; now apply oZ_eqb_eq).
  cbn. apply cmp_kind_self.
Qed.

Theorem compare_message_self : forall l, compare_message l l = Some [].
Proof.
  intros l. unfold compare_message. rewrite Nat.eqb_refl. f_equal.
  induction l as [|p l IH]; cbn [compare_lists]; [reflexivity|]. rewrite compare_self. exact IH.
Qed.

(* ---------- the labels of cmp_kind are never the five basic ones ---------- *)
Lemma cmp_kind_labels k1 k2 x : In x (cmp_kind k1 k2) -> 6 <= x <= 16.
Proof.
  unfold cmp_kind. destruct k1 as [d1 v1|d1 v1|i1 n1 u1 p1 e1|], k2 as [d2 v2|d2 v2|i2 n2 u2 p2 e2|]; try (intros []).
  - rewrite in_app_iff, !in_when. unfold L_dt, L_value. intros [[_ ->]|[_ ->]]; lia.
  - rewrite in_app_iff, !in_when. unfold L_dt, L_values. intros [[_ ->]|[_ ->]]; lia.
  - rewrite in_app_iff. intros [H|H].
    + destruct ((i1 =? i2) && unit_same u1 u2); [destruct H|]. cbn [app In] in H. rewrite !in_app_iff, in_when in H.
      destruct H as [<-|[[_ ->]|[H|H]]]; try (unfold L_dop, L_dopname; lia).
      * unfold cmp_unit in H. destruct u1, u2; try destruct H.
        destruct (_ =? _); [destruct H|]. destruct (negb _); [destruct H as [<-|[]]; unfold L_unitname; lia|].
        destruct (negb _); destruct H as [<-|[]]; unfold L_unitdisp, L_unitobj; lia.
      * unfold cmp_phys in H. destruct p1, p2; try destruct H. apply in_when in H as [_ ->]. unfold L_phys. lia.
    + unfold cmp_extra in H. destruct e1 as [a|a|], e2 as [b|b|]; try (now destruct H);
        apply in_when in H as [_ ->]; unfold L_const, L_default; lia.
Qed.

(* the default value of a VALUE parameter is reported exactly when it differs -- a default which appears or disappears
   included (since the fix commit "the compare tool did not report a default value which was added or removed") *)
Theorem default_reported_iff_differs a b : In L_default (cmp_extra (XValue a) (XValue b)) <-> a <> b.
Proof.
  cbn [cmp_extra]. rewrite in_when. split.
  - intros [H _] ->. apply negb_true_iff in H. now rewrite (proj2 (oZ_eqb_eq b b) eq_refl) in H.
  - intros H. split; [|reflexivity]. apply negb_true_iff. destruct (oZ_eqb a b) eqn:E; [|reflexivity].
    apply oZ_eqb_eq in E. contradiction.
Qed.

Lemma cmp_tail_labels p1 p2 x : In x (cmp_tail p1 p2) -> 6 <= x <= 17.
Proof.
  unfold cmp_tail. rewrite in_app_iff, in_when. intros [[_ ->]|H]; [unfold L_bitpos; lia|].
  apply cmp_kind_labels in H. lia.
Qed.

(* ---------- each basic property is reported exactly when it differs ---------- *)
Lemma in_cp p1 p2 x : In x (compare_params p1 p2) <->
  (negb (q_name p1 =? q_name p2) = true /\ x = L_name) \/
  (negb (oZ_eqb (q_pos p1) (q_pos p2)) = true /\ x = L_pos) \/
  (negb (oZ_eqb (q_bits p1) (q_bits p2)) = true /\ x = L_bits) \/
  (negb (oZ_eqb (q_sem p1) (q_sem p2)) = true /\ x = L_sem) \/
  (negb (q_type p1 =? q_type p2) = true /\ x = L_type) \/
  In x (cmp_tail p1 p2).
Proof. unfold compare_params. rewrite !in_app_iff, !in_when. tauto. Qed.

Lemma negb_Zeqb a b : negb (a =? b) = true <-> a <> b.
Proof. rewrite negb_true_iff, Z.eqb_neq. reflexivity. Qed.
Lemma negb_oZeqb a b : negb (oZ_eqb a b) = true <-> a <> b.
Proof.
  rewrite negb_true_iff. split; intros H.
  - intros E. apply oZ_eqb_eq in E. congruence.
  - destruct (oZ_eqb a b) eqn:E; [apply oZ_eqb_eq in E; contradiction | reflexivity].
Qed.

Theorem reported_iff_differs p1 p2 :
  (In L_name (compare_params p1 p2) <-> q_name p1 <> q_name p2) /\
  (In L_pos (compare_params p1 p2) <-> q_pos p1 <> q_pos p2) /\
  (In L_bits (compare_params p1 p2) <-> q_bits p1 <> q_bits p2) /\
  (In L_sem (compare_params p1 p2) <-> q_sem p1 <> q_sem p2) /\
  (In L_type (compare_params p1 p2) <-> q_type p1 <> q_type p2).
Proof.
  pose proof (cmp_tail_labels p1 p2) as K.
  rewrite !in_cp. unfold L_name, L_pos, L_bits, L_sem, L_type in *.
  split; [|split; [|split; [|split]]]; split.
  - intros [[H _]|[[_ E]|[[_ E]|[[_ E]|[[_ E]|H]]]]]; try discriminate E; [now apply negb_Zeqb | apply K in H; lia].
  - intros H. left. split; [now apply negb_Zeqb | reflexivity].
  - intros [[_ E]|[[H _]|[[_ E]|[[_ E]|[[_ E]|H]]]]]; try discriminate E; [now apply negb_oZeqb | apply K in H; lia].
  - intros H. right. left. split; [now apply negb_oZeqb | reflexivity].
  - intros [[_ E]|[[_ E]|[[H _]|[[_ E]|[[_ E]|H]]]]]; try discriminate E; [now apply negb_oZeqb | apply K in H; lia].
  - intros H. right. right. left. split; [now apply negb_oZeqb | reflexivity].
  - intros [[_ E]|[[_ E]|[[_ E]|[[H _]|[[_ E]|H]]]]]; try discriminate E; [now apply negb_oZeqb | apply K in H; lia].
  - intros H. right. right. right. left. split; [now apply negb_oZeqb | reflexivity].
  - intros [[_ E]|[[_ E]|[[_ E]|[[_ E]|[[H _]|H]]]]]; try discriminate E; [now apply negb_Zeqb | apply K in H; lia].
  - intros H. right. right. right. right. left. split; [now apply negb_Zeqb | reflexivity].
Qed.

(* ---------- the data object behind an unchanged reference ---------- *)
(* two parameters with data objects: "Linked DOP object" is reported exactly when the objects or their units
   differ; the detail lines only appear together with it *)
Theorem dop_reported_iff_differs n t po b s bp i1 n1 u1 p1 e1 i2 n2 u2 p2 e2 :
  let q1 := mkQ n t po b s (QDop i1 n1 u1 p1 e1) bp in
  let q2 := mkQ n t po b s (QDop i2 n2 u2 p2 e2) bp in
  (In L_dop (compare_params q1 q2) <-> i1 <> i2 \/ unit_same u1 u2 = false) /\
  (forall x, In x (compare_params q1 q2) -> x = L_const \/ x = L_default \/ i1 <> i2 \/ unit_same u1 u2 = false).
Proof.
  cbv zeta. unfold compare_params, cmp_tail. cbn [q_name q_type q_pos q_bits q_sem q_kind q_bitpos].
  rewrite !Z.eqb_refl.
  replace (oZ_eqb po po) with true by (symmetry; now apply oZ_eqb_eq).
  replace (oZ_eqb b b) with true by (symmetry; now apply oZ_eqb_eq).
  replace (oZ_eqb s s) with true by (symmetry; now apply oZ_eqb_eq).
  replace (oZ_eqb bp bp) with true by (symmetry; now apply oZ_eqb_eq).
  cbn [negb when app cmp_kind].
  assert (X : forall x, In x (cmp_extra e1 e2) -> x = L_const \/ x = L_default).
  { intros x H. unfold cmp_extra in H. destruct e1 as [a|a|], e2 as [c|c|]; try (now destruct H);
      apply in_when in H as [_ ->]; auto. }
  destruct ((i1 =? i2) && unit_same u1 u2) eqn:E.
  - apply andb_true_iff in E as [E1 E2]. apply Z.eqb_eq in E1. split.
    + cbn [app]. split.
      * intros H. apply X in H. unfold L_dop, L_const, L_default in H. destruct H; discriminate.
      * intros [H|H]; [contradiction | congruence].
    + intros x H. cbn [app] in H. destruct (X x H); auto.
  - assert (D : i1 <> i2 \/ unit_same u1 u2 = false).
    { apply andb_false_iff in E as [E|E]; [left; now apply Z.eqb_neq | right; exact E]. }
    split.
    + split; [intros _; exact D | intros _; cbn; now left].
    + intros x _. right. right. exact D.
Qed.

(* a unit which was modified in place behind unchanged references is reported *)
Corollary unit_edit_reported n t po b s bp i nm a a' p e :
  u_id a <> u_id a' ->
  In L_dop (compare_params (mkQ n t po b s (QDop i nm (Some a) p e) bp) (mkQ n t po b s (QDop i nm (Some a') p e) bp)).
Proof.
  intros H. apply (proj1 (dop_reported_iff_differs n t po b s bp i nm (Some a) p e i nm (Some a') p e)).
  right. cbn. now apply Z.eqb_neq.
Qed.

(* ---------- nothing reported: the two parameters agree on everything the tool looks at ---------- *)
Theorem nothing_reported p1 p2 :
  compare_params p1 p2 = [] ->
  q_name p1 = q_name p2 /\ q_pos p1 = q_pos p2 /\ q_bits p1 = q_bits p2 /\ q_sem p1 = q_sem p2 /\ q_type p1 = q_type p2 /\
  q_bitpos p1 = q_bitpos p2 /\ cmp_kind (q_kind p1) (q_kind p2) = [].
Proof.
  intros H. destruct (reported_iff_differs p1 p2) as (A & B & C & D & E). rewrite H in *. cbn [In] in *.
  assert (N : forall (P : Prop), (False <-> ~ P) -> (P \/ ~ P) -> P) by (intros P [_ X] [Y|Y]; [exact Y | destruct (X Y)]).
  repeat split.
  - apply N; [exact A | destruct (Z.eq_dec (q_name p1) (q_name p2)); auto].
  - apply N; [exact B|]. destruct (oZ_eqb (q_pos p1) (q_pos p2)) eqn:Q; [left; now apply oZ_eqb_eq | right; intros X; apply oZ_eqb_eq in X; congruence].
  - apply N; [exact C|]. destruct (oZ_eqb (q_bits p1) (q_bits p2)) eqn:Q; [left; now apply oZ_eqb_eq | right; intros X; apply oZ_eqb_eq in X; congruence].
  - apply N; [exact D|]. destruct (oZ_eqb (q_sem p1) (q_sem p2)) eqn:Q; [left; now apply oZ_eqb_eq | right; intros X; apply oZ_eqb_eq in X; congruence].
  - apply N; [exact E | destruct (Z.eq_dec (q_type p1) (q_type p2)); auto].
  - unfold compare_params in H. do 5 (apply app_eq_nil in H; destruct H as [_ H]). unfold cmp_tail in H.
    apply app_eq_nil in H as [H _]. destruct (oZ_eqb (q_bitpos p1) (q_bitpos p2)) eqn:Q; [now apply oZ_eqb_eq | discriminate H].
  - unfold compare_params in H. do 5 (apply app_eq_nil in H; destruct H as [_ H]). unfold cmp_tail in H.
    apply app_eq_nil in H as [_ H]. exact H.
Qed.

(* the bit position is reported exactly when it differs *)
Theorem bitpos_reported_iff_differs p1 p2 :
  In L_bitpos (compare_params p1 p2) <-> q_bitpos p1 <> q_bitpos p2.
Proof.
  rewrite in_cp. unfold cmp_tail. rewrite in_app_iff, in_when. unfold L_name, L_pos, L_bits, L_sem, L_type, L_bitpos.
  pose proof (cmp_kind_labels (q_kind p1) (q_kind p2) 17) as K.
  split.
  - intros [[_ E]|[[_ E]|[[_ E]|[[_ E]|[[_ E]|[[H _]|H]]]]]]; try discriminate E; [now apply negb_oZeqb | apply K in H; lia].
  - intros H. right. right. right. right. right. left. split; [now apply negb_oZeqb | reflexivity].
Qed.

(* a coded constant: data type and value are reported exactly when they differ *)
Theorem coded_reported_iff_differs n t po b s bp d1 v1 d2 v2 :
  let q1 := mkQ n t po b s (QCoded d1 v1) bp in
  let q2 := mkQ n t po b s (QCoded d2 v2) bp in
  (In L_dt (compare_params q1 q2) <-> d1 <> d2) /\ (In L_value (compare_params q1 q2) <-> v1 <> v2).
Proof.
  cbv zeta. unfold compare_params, cmp_tail. cbn [q_name q_type q_pos q_bits q_sem q_kind q_bitpos].
  rewrite !Z.eqb_refl.
  replace (oZ_eqb po po) with true by (symmetry; now apply oZ_eqb_eq).
  replace (oZ_eqb b b) with true by (symmetry; now apply oZ_eqb_eq).
  replace (oZ_eqb s s) with true by (symmetry; now apply oZ_eqb_eq).
  replace (oZ_eqb bp bp) with true by (symmetry; now apply oZ_eqb_eq).
  cbn [negb when app cmp_kind]. rewrite !in_app_iff, !in_when, !negb_true_iff, !Z.eqb_neq.
  unfold L_dt, L_value. split; split; intros H; try tauto.
  - destruct H as [[H _]|[_ H]]; [exact H | discriminate].
  - destruct H as [[_ H]|[H _]]; [discriminate | exact H].
Qed.

Example compare_example :
  let dop i := QDop i 5 None (Some 2) (XValue None) in
  compare_params (mkQ 1 7 (Some 2) (Some 16) None (dop 11) None) (mkQ 1 7 (Some 2) (Some 8) None (dop 12) None) = [L_bits; L_dop] /\
  compare_params (mkQ 1 7 (Some 2) (Some 8) None (QCoded 3 34) (Some 4)) (mkQ 1 7 None (Some 8) (Some 9) (QCoded 3 35) None)
    = [L_pos; L_sem; L_bitpos; L_value].
Proof. vm_compute. split; reflexivity. Qed.
