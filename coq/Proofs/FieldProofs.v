(* C01 / C02 for lists of structures: a STATIC-FIELD whose items are structures of parameters which
   round-trip (leaves or structures again), each item filling its ITEM-BYTE-SIZE exactly. The field is a
   further leaf kind for the trees of TreeProofs.v: it appends the concatenation of the item bytes, and
   decoding returns the list of item dictionaries. *)
From Coq Require Import ZArith List Bool Lia.
From OV Require Import Base.Bytes Base.Wire Generated Model.Str Model.Codec
     Proofs.BytesProofs Proofs.AtomicProofs Proofs.CodecProps Proofs.FlatProofs Proofs.TreeProofs Proofs.TreeWireProofs.
Import ListNotations.
Open Scope Z_scope.

(* a member which is known to round-trip AND whose bytes are known *)
Record rmem := mkRM { r_m : member; r_w : list Z }.
Definition rgood (k : nat) (x : rmem) : Prop :=
  appends_ge k k (m_p (r_m x)) (m_in (r_m x)) (m_out (r_m x)) /\
  writes_ge k (m_p (r_m x)) (m_in (r_m x)) (r_w x) /\
  no_lenkey (m_p (r_m x)).
Definition rms (rs : list rmem) : list member := map r_m rs.
Definition rbytes (rs : list rmem) : list Z := concat (map r_w rs).

(* ---------- a composite (the content of a structure), with its bytes ---------- *)
Lemma composite_rt k rs fe fd s :
  (forall x, In x rs -> rgood k x) -> NoDup (map m_name (rms rs)) ->
  (k <= fe)%nat -> (k <= fd)%nat -> at_end s ->
  exists s1,
    enc_composite (S fe) (map m_p (rms rs)) (VDict (in_dict (rms rs))) s = Ok s1 /\
    at_end s1 /\ e_warn s1 = e_warn s /\ e_origin s1 = e_origin s /\ e_msg s1 = e_msg s ++ rbytes rs /\
    forall r o lk,
      dec_composite (S fd) (map m_p (rms rs)) (mkD (e_msg s1 ++ r) o (e_cur s) 0 lk) =
      Ok (VDict (out_dict (rms rs)), mkD (e_msg s1 ++ r) o (e_cur s1) 0 lk).
Proof.
  intros Hg ND Hfe Hfd Hend.
  set (ms := rms rs) in *. set (kv' := in_dict ms).
  set (s0 := set_eop (set_origin s (e_cur s)) false).
  assert (Hend0 : at_end s0) by (destruct Hend as (A & B & C & D); repeat split; auto).
  assert (Hga : forall x, In x ms -> appends fe fd (m_p x) (m_in x) (m_out x) /\ lookup (m_name x) kv' = m_in x).
  { intros x Hx. split; [|now apply lookup_in_dict].
    unfold ms, rms in Hx. apply in_map_iff in Hx as (y & <- & Hy). apply (proj1 (Hg y Hy)); assumption. }
  destruct (seq_loop fe fd kv' (zlen (map m_p ms)) (e_eop s) ms s0 0 Hend0 Hga)
    as (s' & w & He & Hend' & Hwarn & Ho & Hmsg & Hdec).
  (* the same run, seen with its bytes *)
  set (ws := map (fun x => mkW (m_p (r_m x)) (m_in (r_m x)) (r_w x)) rs).
  assert (Hps : map w_p ws = map m_p ms) by (unfold ws, ms, rms; rewrite !map_map; reflexivity).
  assert (Hgw : forall x, In x ws -> writes fe (w_p x) (w_in x) (w_bytes x) /\ lookup (pname (w_p x)) kv' = w_in x).
  { intros x Hx. unfold ws in Hx. apply in_map_iff in Hx as (y & <- & Hy). cbn [w_p w_in w_bytes]. split.
    - apply (proj1 (proj2 (Hg y Hy))). assumption.
    - assert (Hin : In (r_m y) ms) by (unfold ms, rms; now apply in_map).
      exact (lookup_in_dict ms (r_m y) ND Hin). }
  destruct (seq_writes fe kv' (zlen (map m_p ms)) (e_eop s) ws s0 0 Hend0 Hgw) as (s'' & He2 & _ & _ & _ & Hmsg2).
  rewrite Hps in He2. rewrite He in He2. injection He2 as <-.
  assert (Hb : concat (map w_bytes ws) = rbytes rs) by (unfold ws, rbytes; rewrite map_map; reflexivity).
  rewrite Hb in Hmsg2.
  exists (set_origin (set_cur (set_eop s' false) (e_cur (set_eop s' false))) (e_origin s)).
  split; [|split; [|split; [|split; [|split]]]].
  - cbn [enc_composite].
    no_own_keys ltac:(intros p Hp; unfold ms, rms in Hp; rewrite map_map in Hp; apply in_map_iff in Hp as (x & <- & Hx);
                      apply (proj2 (proj2 (Hg x Hx)))).
    destruct Hend as (Hbit & _). rewrite Hbit. cbn [Z.eqb guard bind].
    fold kv'. pose proof (known_members ms ms (incl_refl ms)) as Hkm. fold kv' in Hkm. rewrite Hkm. cbn [guard bind].
    unfold enc_go in He. unfold s0 in He. rewrite He. cbn [bind].
    pose proof (keys_none fe (map m_p ms) (set_eop s' false)) as Hkeys. unfold keys_go in Hkeys.
    rewrite Hkeys; [reflexivity|].
    intros p Hp. unfold ms, rms in Hp. rewrite map_map in Hp. apply in_map_iff in Hp as (x & <- & Hx).
    apply (proj2 (proj2 (Hg x Hx))).
  - destruct Hend' as (A & B & C & D). repeat split; auto.
  - cbn. exact Hwarn.
  - reflexivity.
  - cbn. exact Hmsg2.
  - intros r o lk. cbn [dec_composite]. cbn [set_origin set_cur set_eop e_msg e_cur].
    cbn [dset_origin d_msg d_origin d_cur d_bit d_lkeys].
    specialize (Hdec r (e_cur s) lk []). unfold dec_go in Hdec. cbn [s0 set_eop set_origin e_cur] in Hdec.
    change (dset_origin (mkD (e_msg s' ++ r) o (e_cur s) 0 lk) (e_cur s)) with (mkD (e_msg s' ++ r) (e_cur s) (e_cur s) 0 lk).
    rewrite Hdec. cbn [bind]. cbn [dset_origin d_msg d_origin d_cur d_bit d_lkeys].
    rewrite fold_out_nodup; auto.
Qed.

(* ---------- the item loops of a STATIC-FIELD as standalone functions ---------- *)
Definition senc_go (f : nat) (sd : dop) (n : Z) (orig_eop : bool) (isz : Z) :=
  fix go (items : list value) (i : Z) (s : estate) : res estate :=
    match items with
    | [] => Ok s
    | it :: r =>
      do _ <- guard (match it with VDict _ => true | _ => false end) ERej;
      let s := if i =? n - 1 then set_eop s orig_eop else s in
      let before := e_cur s in
      do s1 <- enc_dop f sd it s;
      let used := e_cur s1 - before in
      do _ <- guard (used <=? isz) ERej;
      do s1 <- (if used <? isz then emplace_bytes s1 (zeros (isz - used)) None else Ok s1);
      go r (i + 1) s1
    end.

Definition sdec_go (f : nat) (sd : dop) (isz : Z) :=
  fix go (k : nat) (s : dstate) (acc : list value) : res (list value * dstate) :=
    match k with
    | O => Ok (rev acc, s)
    | S k' =>
      let oc := d_cur s in
      do vs <- dec_dop f sd s;
      let '(v, s1) := vs in
      go k' (dset_cur s1 (oc + isz)) (v :: acc)
    end.

(* what an item is: the members of its structure, known to round-trip, filling the item size exactly *)
Definition item_ok (k : nat) (ps : list param) (isz : Z) (rs : list rmem) : Prop :=
  map m_p (rms rs) = ps /\ (forall x, In x rs -> rgood k x) /\ NoDup (map m_name (rms rs)) /\ blen (rbytes rs) = isz.

Definition item_in (rs : list rmem) : value := VDict (in_dict (rms rs)).
Definition item_out (rs : list rmem) : value := VDict (out_dict (rms rs)).

Lemma static_loop k fe fd ps n oe isz :
  (k <= fe)%nat -> (k <= fd)%nat ->
  forall (items : list (list rmem)) s i,
  at_end s -> (forall rs, In rs items -> item_ok k ps isz rs) ->
  exists s',
    senc_go (S (S fe)) (DStruct ps None) n oe isz (map item_in items) i s = Ok s' /\
    at_end s' /\ e_warn s' = e_warn s /\ e_origin s' = e_origin s /\
    e_msg s' = e_msg s ++ concat (map rbytes items) /\
    forall r o lk acc,
      sdec_go (S (S fd)) (DStruct ps None) isz (length items) (mkD (e_msg s' ++ r) o (e_cur s) 0 lk) acc =
      Ok (rev acc ++ map item_out items, mkD (e_msg s' ++ r) o (e_cur s') 0 lk).
Proof.
  intros Hfe Hfd. induction items as [|rs items IH]; intros s i Hend Hit.
  - exists s. cbn [map senc_go sdec_go concat length]. rewrite !app_nil_r.
    split; [reflexivity|]. split; [exact Hend|]. do 3 (split; [reflexivity|]).
    intros r o lk acc. rewrite app_nil_r. reflexivity.
  - destruct (Hit rs (or_introl eq_refl)) as (Hps & Hg & ND & Hsz).
    set (s0 := if i =? n - 1 then set_eop s oe else s).
    assert (Hend0 : at_end s0) by (unfold s0; destruct (i =? n - 1); auto using at_end_set_eop).
    assert (E0 : e_msg s0 = e_msg s /\ e_cur s0 = e_cur s /\ e_warn s0 = e_warn s /\ e_origin s0 = e_origin s)
      by (unfold s0; destruct (i =? n - 1); repeat split; reflexivity).
    destruct E0 as (Em0 & Ec0 & Ew0 & Eo0).
    destruct (composite_rt k rs fe fd s0 Hg ND Hfe Hfd Hend0) as (s1 & He1 & Hend1 & Hw1 & Ho1 & Hm1 & Hd1).
    rewrite Hps in He1, Hd1.
    assert (Hcur1 : e_cur s1 = e_cur s0 + isz).
    { destruct Hend1 as (_ & C1 & _). destruct Hend0 as (_ & C0 & _). rewrite C1, Hm1, blen_app, C0, Hsz. reflexivity. }
    destruct (IH s1 (i + 1) Hend1 (fun y Hy => Hit y (or_intror Hy))) as (s' & He2 & Hend2 & Hw2 & Ho2 & Hm2 & Hd2).
    exists s'. split; [|split; [|split; [|split; [|split]]]].
    + cbn [map senc_go]. change (item_in rs) with (VDict (in_dict (rms rs))). cbn [guard bind]. fold s0.
      cbn [enc_dop]. rewrite He1. cbn [bind].
      replace (e_cur s1 - e_cur s0 <=? isz) with true by lia. cbn [guard bind].
      replace (e_cur s1 - e_cur s0 <? isz) with false by lia. cbn [bind]. exact He2.
    + exact Hend2.
    + congruence.
    + congruence.
    + rewrite Hm2, Hm1, Em0. cbn [map concat]. now rewrite app_assoc.
    + intros r o lk acc. cbn [length sdec_go]. cbn [dec_dop].
      assert (R1 : e_msg s' ++ r = e_msg s1 ++ (concat (map rbytes items) ++ r)) by (rewrite Hm2; now rewrite <- app_assoc).
      rewrite R1. rewrite <- Ec0. rewrite Hd1. cbn [bind d_cur dset_cur d_msg d_origin d_bit d_lkeys].
      rewrite <- R1.
      replace (e_cur s0 + isz) with (e_cur s1) by lia.
      change (dset_cur (mkD (e_msg s' ++ r) o (e_cur s1) 0 lk) (e_cur s1)) with (mkD (e_msg s' ++ r) o (e_cur s1) 0 lk).
      rewrite Hd2. cbn [rev map]. rewrite <- app_assoc. reflexivity.
Qed.

(* ---------- the field as a parameter ---------- *)
Definition static_param (nm : name) (ps : list param) (n isz : Z) : param :=
  P nm None None (KValue (DStatic (DStruct ps None) n isz) None).

Lemma set_bit_id s : e_bit s = 0 -> set_bit s 0 = s.
Proof. destruct s. cbn. intros ->. reflexivity. Qed.

Theorem static_field_rt k nm ps isz (items : list (list rmem)) :
  (forall rs, In rs items -> item_ok k ps isz rs) ->
  let p := static_param nm ps (zlen items) isz in
  let vin := Some (VList (map item_in items)) in
  appends_ge (4 + k) (4 + k) p vin (VList (map item_out items)) /\
  writes_ge (4 + k) p vin (concat (map rbytes items)) /\ no_lenkey p.
Proof.
  intros Hit p vin.
  assert (Core : forall fe fd, (k <= fe)%nat -> (k <= fd)%nat -> forall s kv, at_end s -> lookup nm kv = vin ->
            exists s', enc_param (S (S (S (S fe)))) p kv s = Ok s' /\ at_end s' /\ e_warn s' = e_warn s /\ e_origin s' = e_origin s /\
                       e_msg s' = e_msg s ++ concat (map rbytes items) /\
                       forall r o lk, dec_param (S (S (S (S fd)))) p (mkD (e_msg s' ++ r) o (e_cur s) 0 lk) =
                                      Ok (VList (map item_out items), mkD (e_msg s' ++ r) o (e_cur s') 0 lk)).
  { intros fe fd Hfe Hfd s kv Hend Hl.
    pose proof Hend as (Hbit & _).
    set (sb := set_eop (set_bit s 0) false).
    assert (Hendb : at_end sb) by (destruct Hend as (A & B & C & D); repeat split; auto).
    destruct (static_loop k fe fd ps (zlen items) (e_eop (set_bit s 0)) isz Hfe Hfd items sb 0 Hendb Hit)
      as (s' & He & Hend' & Hw & Ho & Hm & Hd).
    exists (set_bit (set_eop s' (e_eop (set_bit s 0))) 0).
    split; [|split; [|split; [|split; [|split]]]].
    - unfold p, static_param. cbn [enc_param]. unfold is_required. cbn [pkind_of]. unfold vin in Hl. rewrite Hl.
      cbn [negb orb guard bind]. unfold vget. rewrite Hl. cbn [is_none negb guard bind opt_or0].
      cbn [enc_dop].
      assert (Hz : zlen (map item_in items) =? zlen items = true).
      { unfold zlen. rewrite map_length. apply Z.eqb_refl. }
      rewrite Hz. cbn [guard bind].
      match goal with |- bind (bind ?X _) _ = _ =>
        change X with (senc_go (S (S fe)) (DStruct ps None) (zlen items) (e_eop (set_bit s 0)) isz (map item_in items) 0 sb) end.
      rewrite He. cbn [bind]. reflexivity.
    - destruct Hend' as (A & B & C & D). repeat split; auto.
    - cbn. exact Hw.
    - cbn. exact Ho.
    - cbn. exact Hm.
    - intros r o lk. unfold p, static_param. cbn [dec_param]. cbn [opt_or0].
      cbn [set_bit set_eop e_msg e_cur].
      change (dset_bit (mkD (e_msg s' ++ r) o (e_cur s) 0 lk) 0) with (mkD (e_msg s' ++ r) o (e_cur s) 0 lk).
      cbn [dec_dop]. cbn [d_bit Z.eqb guard bind d_origin d_cur].
      change (dset_origin (mkD (e_msg s' ++ r) o (e_cur s) 0 lk) (e_cur s)) with (mkD (e_msg s' ++ r) (e_cur s) (e_cur s) 0 lk).
      specialize (Hd r (e_cur s) lk []). cbn [sb set_eop set_bit e_cur] in Hd.
      assert (Hn : Z.to_nat (zlen items) = length items) by (unfold zlen; apply Nat2Z.id).
      rewrite Hn.
      match goal with |- bind (bind ?X _) _ = _ =>
        change X with (sdec_go (S (S fd)) (DStruct ps None) isz (length items) (mkD (e_msg s' ++ r) (e_cur s) (e_cur s) 0 lk) []) end.
      rewrite Hd. cbn [bind rev app fst snd dset_origin dset_bit d_msg d_origin d_cur d_bit d_lkeys].
      reflexivity. }
  split; [|split].
  - intros fe fd Hfe Hfd s kv Hend Hl. destruct fe as [|[|[|[|fe]]]]; try lia. destruct fd as [|[|[|[|fd]]]]; try lia.
    destruct (Core fe fd ltac:(lia) ltac:(lia) s kv Hend Hl) as (s' & A & B & C & D & E & F).
    exists s', (concat (map rbytes items)). repeat split; auto; apply B.
  - intros fe Hfe s kv Hend Hl. destruct fe as [|[|[|[|fe]]]]; try lia.
    destruct (Core fe k ltac:(lia) (le_n k) s kv Hend Hl) as (s' & A & B & C & D & E & _).
    exists s'. repeat split; auto; apply B.
  - exact I.
Qed.

(* ---------- building blocks: leaves, structures and fields are good members ---------- *)
Lemma rgood_weaken k k' x : rgood k x -> (k <= k')%nat -> rgood k' x.
Proof.
  intros (A & W & N) H. split; [|split; [|exact N]].
  - intros fe fd Hfe Hfd. apply A; lia.
  - intros fe Hfe. apply W; lia.
Qed.

Definition leaf_rm (x : fdesc) (vv : name -> value) (w : list Z) : rmem :=
  mkRM (mkM (mkp x) (if is_value x then Some (vv (fname x)) else None) (vv (fname x))) w.

Lemma leaf_rgood x vv w : sane vv x -> canon vv x w -> rgood 2 (leaf_rm x vv w).
Proof.
  intros Hs Hc. unfold rgood, leaf_rm. cbn [r_m r_w m_p m_in m_out]. split; [|split].
  - apply leaf_appends. now apply (canon_fits vv x w).
  - now apply leaf_writes.
  - unfold mkp, no_lenkey. destruct (f_const x); exact I.
Qed.

Definition struct_rm (nm : name) (rs : list rmem) : rmem :=
  mkRM (mkM (struct_param nm (rms rs)) (Some (VDict (in_dict (rms rs)))) (VDict (out_dict (rms rs)))) (rbytes rs).

Lemma struct_rgood k nm rs :
  (forall x, In x rs -> rgood k x) -> NoDup (map m_name (rms rs)) -> rgood (3 + k) (struct_rm nm rs).
Proof.
  intros Hg ND. unfold rgood, struct_rm. cbn [r_m r_w m_p m_in m_out]. split; [|split; [|exact I]].
  - apply struct_appends; [|exact ND]. intros x Hx. unfold rms in Hx. apply in_map_iff in Hx as (y & <- & Hy).
    split; [apply (Hg y Hy) | apply (Hg y Hy)].
  - (* the same parameter and dictionary, seen through the byte-carrying members *)
    set (ws := map (fun x => mkW (m_p (r_m x)) (m_in (r_m x)) (r_w x)) rs).
    assert (Ep : map m_p (map as_m ws) = map m_p (rms rs)) by (unfold ws, rms; rewrite !map_map; reflexivity).
    assert (Ei : map m_in (map as_m ws) = map m_in (rms rs)) by (unfold ws, rms; rewrite !map_map; reflexivity).
    assert (E1 : struct_param nm (rms rs) = struct_param nm (map as_m ws)) by (unfold struct_param; now rewrite Ep).
    assert (E2 : in_dict (rms rs) = in_dict (map as_m ws)) by (symmetry; now apply in_dict_ext).
    assert (E3 : rbytes rs = concat (map w_bytes ws)) by (unfold rbytes, ws; rewrite map_map; reflexivity).
    rewrite E1, E2, E3. apply struct_writes.
    + intros x Hx. unfold ws in Hx. apply in_map_iff in Hx as (y & <- & Hy). cbn [w_p w_in w_bytes].
      split; [apply (Hg y Hy) | apply (Hg y Hy)].
    + unfold ws. rewrite map_map. cbn [w_p]. unfold rms in ND. rewrite map_map in ND. exact ND.
Qed.

Definition field_rm (nm : name) (ps : list param) (isz : Z) (items : list (list rmem)) : rmem :=
  mkRM (mkM (static_param nm ps (zlen items) isz) (Some (VList (map item_in items))) (VList (map item_out items)))
       (concat (map rbytes items)).

Lemma field_rgood k nm ps isz items :
  (forall rs, In rs items -> item_ok k ps isz rs) -> rgood (4 + k) (field_rm nm ps isz items).
Proof. intros H. unfold rgood, field_rm. cbn [r_m r_w m_p m_in m_out]. exact (static_field_rt k nm ps isz items H). Qed.

(* ---------- messages of good members ---------- *)
Theorem rmessage_roundtrip k rs :
  (forall x, In x rs -> rgood k x) -> NoDup (map m_name (rms rs)) ->
  let ps := map m_p (rms rs) in
  (k + 1 <= fuel_of ps)%nat ->
  encode_msg ps None (VDict (in_dict (rms rs))) = Ok (rbytes rs, false) /\
  decode_msg ps (rbytes rs) = Ok (VDict (out_dict (rms rs))).
Proof.
  intros Hg ND ps Hfuel.
  destruct (fuel_of ps) as [|F] eqn:EF; [lia|].
  assert (Hend0 : at_end (estate0 None)) by (repeat split; reflexivity).
  destruct (composite_rt k rs F F (estate0 None) Hg ND ltac:(lia) ltac:(lia) Hend0) as (s1 & He & Hend1 & Hw & Ho & Hm & Hd).
  fold ps in He, Hd. cbn [estate0 e_msg e_warn e_cur app] in Hm, Hw, Hd.
  split.
  - unfold encode_msg. rewrite EF, He. cbn [bind]. rewrite Hm, Hw. reflexivity.
  - unfold decode_msg. rewrite EF. specialize (Hd [] 0 []). rewrite app_nil_r, Hm in Hd.
    change (dstate0 (rbytes rs)) with (mkD (rbytes rs) 0 0 0 []). rewrite Hd. reflexivity.
Qed.

(* a request: service id, a STATIC-FIELD of three items {a: 8 bit, b: 16 bit little endian}, a trailing byte *)
Example field_example :
  let u8 nm := mkF nm 8 BUint None true BUint None in
  let u16le nm := mkF nm 16 BUint None false BUint None in
  let vv (z : Z) := fun _ : name => VInt z in
  let item (a b : Z) := [leaf_rm (u8 [97]) (vv a) (wire_bytes (u8 [97]) a); leaf_rm (u16le [98]) (vv b) (wire_bytes (u16le [98]) b)] in
  let items := [item 1 258; item 2 772; item 255 65535] in
  let ps_item := map m_p (rms (item 0 0)) in
  let rs := [leaf_rm (mkF [115] 8 BUint None true BUint (Some (VInt 34))) (vv 34) [34];
             field_rm [102] ps_item 3 items;
             leaf_rm (u8 [122]) (vv 9) [9]] in
  rbytes rs = [34; 1; 2; 1; 2; 4; 3; 255; 255; 255; 9] /\
  encode_msg (map m_p (rms rs)) None (VDict (in_dict (rms rs))) = Ok (rbytes rs, false) /\
  decode_msg (map m_p (rms rs)) (rbytes rs) = Ok (VDict (out_dict (rms rs))).
Proof. cbv zeta. split; [vm_compute; reflexivity|]. split; vm_compute; reflexivity. Qed.

Lemma uint_leaf_rgood nm bl hl cst z :
  0 < bl <= 64 -> 0 <= z < 2 ^ bl -> (match cst with Some c => c = VInt z | None => True end) ->
  rgood 2 (leaf_rm (mkF nm bl BUint None hl BUint cst) (fun _ => VInt z) (wire_bytes (mkF nm bl BUint None hl BUint cst) z)).
Proof.
  intros Hbl Hz Hc.
  assert (W : wwf (raw_leaf (mkF nm bl BUint None hl BUint cst) (fun _ => VInt z) z)).
  { apply raw_leaf_wf; cbn [f_bl f_bt f_en f_hl f_pt f_const fname f_name].
    - unfold sane. cbn [f_bl f_bt f_pt f_const fname f_name is_numeric andb].
      split; [lia|]. split; [apply Z.ltb_ge; lia|]. split; [reflexivity|]. split; [reflexivity|].
      destruct cst as [c|]; [symmetry; exact Hc | exact I].
    - exact Hz.
    - apply raw_of_uint; lia.
    - destruct (uint_raw_roundtrip z bl None hl z ltac:(lia) (or_introl eq_refl) (raw_of_uint z bl hl ltac:(lia) Hz)) as [_ Hv].
      exact Hv. }
  destruct W as [Hs Hcn]. now apply leaf_rgood.
Qed.

(* the premises of rmessage_roundtrip are met by the example *)
Example field_premises :
  let u8 nm := mkF nm 8 BUint None true BUint None in
  let u16le nm := mkF nm 16 BUint None false BUint None in
  let vv (z : Z) := fun _ : name => VInt z in
  let item (a b : Z) := [leaf_rm (u8 [97]) (vv a) (wire_bytes (u8 [97]) a); leaf_rm (u16le [98]) (vv b) (wire_bytes (u16le [98]) b)] in
  let items := [item 1 258; item 2 772; item 255 65535] in
  let ps_item := map m_p (rms (item 0 0)) in
  let rs := [leaf_rm (mkF [115] 8 BUint None true BUint (Some (VInt 34))) (vv 34) (wire_bytes (mkF [115] 8 BUint None true BUint (Some (VInt 34))) 34);
             field_rm [102] ps_item 3 items;
             leaf_rm (u8 [122]) (vv 9) (wire_bytes (u8 [122]) 9)] in
  (forall x, In x rs -> rgood 6 x) /\ NoDup (map m_name (rms rs)) /\ (6 + 1 <= fuel_of (map m_p (rms rs)))%nat.
Proof.
  intros u8 u16le vv item items ps_item rs.
  assert (Hitem : forall a b, 0 <= a < 256 -> 0 <= b < 65536 -> item_ok 2 ps_item 3 (item a b)).
  { intros a b Ha Hb. split; [reflexivity|]. split; [|split].
    - intros x [<-|[<-|[]]]; apply uint_leaf_rgood; cbn; try lia; exact I.
    - repeat constructor; cbn; intuition discriminate.
    - unfold rbytes, item, u8, u16le. cbn [map r_w leaf_rm concat]. rewrite !blen_app.
      unfold wire_bytes, fbytes, nbytes_of. cbn [f_bl f_hl f_bt is_numeric negb andb].
      rewrite blen_rev. unfold blen. rewrite !to_be_length. reflexivity. }
  split; [|split].
  - intros x [<-|[<-|[<-|[]]]].
    + eapply rgood_weaken; [apply uint_leaf_rgood; cbn; try lia; reflexivity | lia].
    + change 6%nat with (4 + 2)%nat. apply field_rgood.
      intros r [<-|[<-|[<-|[]]]]; apply Hitem; lia.
    + eapply rgood_weaken; [apply uint_leaf_rgood; cbn; try lia; exact I | lia].
  - repeat constructor; cbn; intuition discriminate.
  - vm_compute. lia.
Qed.
