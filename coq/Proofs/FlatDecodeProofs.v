(* C05 at message level: decoding ANY byte string with a message which is a sequence of
   CODED-CONST / VALUE parameters over STANDARD-LENGTH types (the flat messages of FlatProofs.v)
   returns values or a decode error, and a PDU shorter than the described length is never decoded. *)
From Coq Require Import ZArith List Bool Lia ZifyBool.
From OV Require Import Base.Bytes Base.Wire Generated Model.Str Model.Codec
     Proofs.BytesProofs Proofs.AtomicProofs Proofs.CodecProps Proofs.FlatProofs.
Import ListNotations.
Open Scope Z_scope.

(* a sane description of one parameter: a positive bit length and a legal type / encoding pair *)
Definition fwf (x : fdesc) : Prop := 0 < f_bl x /\ wf_atom (f_bt x) (f_en x) (f_hl x) = true.

Definition derr {A} (r : res A) : Prop := r = Err EDecode \/ r = Err EMismatch.

Lemma extract_cases s bl bt en hl :
  0 < bl -> wf_atom bt en hl = true ->
  (exists v, extract_atomic s bl bt en hl =
             Ok (v, mkD (d_msg s) (d_origin s) (d_cur s + nbytes_of bl (d_bit s)) 0 (d_lkeys s)) /\
             d_cur s + nbytes_of bl (d_bit s) <= blen (d_msg s)) \/
  derr (extract_atomic s bl bt en hl).
Proof.
  intros Hbl W. pose proof (extract_total s bl bt en hl W) as T. unfold extract_atomic in *.
  replace (bl =? 0) with false in * by lia.
  destruct (blen (d_msg s) <? d_cur s + nbytes_of bl (d_bit s)) eqn:L; [right; left; reflexivity|].
  destruct (negb (is_numeric bt) && negb (bl mod 8 =? 0)); [right; left; reflexivity|].
  destruct (is_numeric bt && (64 <? bl)); [right; left; reflexivity|].
  match goal with |- context [value_of_raw ?r ?b ?t ?e ?h] => destruct (value_of_raw r b t e h) as [v|e0] eqn:V end.
  - left. exists v. cbn [bind]. split; [reflexivity | lia].
  - right. cbn [bind] in *. destruct e0; try contradiction; [left | right]; reflexivity.
Qed.

(* one parameter, from any state whose bit position is irrelevant (it is reset) *)
Lemma dec_flat_param_cases f x s :
  fwf x ->
  (exists v, dec_param (S (S f)) (mkp x) s =
             Ok (v, mkD (d_msg s) (d_origin s) (d_cur s + fbytes x) 0 (d_lkeys s)) /\
             d_cur s + fbytes x <= blen (d_msg s)) \/
  derr (dec_param (S (S f)) (mkp x) s).
Proof.
  intros [Hbl W]. unfold mkp, fbytes.
  pose proof (extract_cases (dset_bit s 0) (f_bl x) (f_bt x) (f_en x) (f_hl x) Hbl W) as E.
  cbn [dset_bit d_msg d_origin d_cur d_bit d_lkeys] in E.
  destruct (f_const x) as [cv|].
  - cbn [dec_param opt_or0 dec_dct].
    destruct E as [(v & E & Hle)|[E|E]].
    + left. exists v. rewrite E. cbn [bind fst snd dset_bit d_msg d_origin d_cur d_lkeys]. split; [reflexivity | exact Hle].
    + right. left. rewrite E. reflexivity.
    + right. right. rewrite E. reflexivity.
  - cbn [dec_param opt_or0 dec_dop dec_dct].
    destruct E as [(v & E & Hle)|[E|E]].
    + rewrite E. cbn [bind valid_int dct_bt].
      destruct (isinstance_bt (f_bt x) v).
      * left. exists v. cbn [i2p bind fst snd dset_bit d_msg d_origin d_cur d_lkeys]. split; [reflexivity | exact Hle].
      * right. left. reflexivity.
    + right. left. rewrite E. reflexivity.
    + right. right. rewrite E. reflexivity.
Qed.

Definition total_bytes (fl : list fdesc) : Z := fold_right (fun x a => fbytes x + a) 0 fl.

(* the decode loop: a result or a decode error; a result needs the whole described length *)
Lemma dec_go_cases f : forall fl s acc,
  (forall x, In x fl -> fwf x) -> d_cur s <= blen (d_msg s) ->
  (exists kv s1, dec_go (S (S f)) (map mkp fl) s acc = Ok (kv, s1) /\
                 d_cur s + total_bytes fl <= blen (d_msg s)) \/
  derr (dec_go (S (S f)) (map mkp fl) s acc).
Proof.
  induction fl as [|x fl IH]; intros s acc Hw Hin; cbn [map dec_go total_bytes fold_right].
  - left. exists acc, s. split; [reflexivity | lia].
  - destruct (dec_flat_param_cases f x s (Hw x (or_introl eq_refl))) as [(v & E & Hle)|[E|E]].
    + rewrite E. cbn [bind].
      set (s1 := mkD (d_msg s) (d_origin s) (d_cur s + fbytes x) 0 (d_lkeys s)).
      destruct (IH s1 (update (pname (mkp x)) v acc) (fun y Hy => Hw y (or_intror Hy))) as [(kv & s2 & G & Hl)|G].
      * exact Hle.
      * left. exists kv, s2. split; [exact G|]. cbn [s1 d_cur d_msg] in Hl. fold (total_bytes fl). lia.
      * right. exact G.
    + right. left. rewrite E. reflexivity.
    + right. right. rewrite E. reflexivity.
Qed.

(* ---------- the theorems ---------- *)
Lemma flat_fuel fl : exists k, fuel_of (map mkp fl) = S (S (S k)).
Proof. unfold fuel_of. exists (4 * dop_size 64 (DStruct (map mkp fl) None) + 5)%nat. lia. Qed.

Lemma bind_shape (X : res (list (name * value) * dstate)) (o : Z) :
  (do vs <- (do r <- X; let '(kv, s1) := r in Ok (VDict kv, dset_origin s1 o)); Ok (fst vs)) =
  match X with Ok (kv, s1) => Ok (VDict kv) | Err e => Err e end.
Proof. destruct X as [[kv s1]|e]; reflexivity. Qed.

Lemma decode_msg_flat fl m k :
  fuel_of (map mkp fl) = S (S (S k)) ->
  decode_msg (map mkp fl) m =
  match dec_go (S (S k)) (map mkp fl) (mkD m 0 0 0 []) [] with
  | Ok (kv, s1) => Ok (VDict kv)
  | Err e => Err e
  end.
Proof.
  intros Hk. unfold decode_msg. rewrite Hk. cbn [dec_composite dstate0 d_origin d_cur dset_origin d_msg d_bit d_lkeys].
  change (dset_origin (dstate0 m) 0) with (mkD m 0 0 0 []).
  unfold dec_go. apply bind_shape.
Qed.

(* every byte string: values or a decode error, nothing else (no foreign outcome, no fuel exhaustion) *)
Theorem flat_decode_total fl m :
  (forall x, In x fl -> fwf x) -> dec_outcome_ok (decode_msg (map mkp fl) m).
Proof.
  intros Hw. destruct (flat_fuel fl) as (k & Hk). rewrite (decode_msg_flat fl m k Hk).
  destruct (dec_go_cases k fl (mkD m 0 0 0 []) [] Hw) as [(kv & s1 & G & _)|[G|G]].
  - cbn. pose proof (blen_nonneg m). lia.
  - rewrite G. exact I.
  - rewrite G. exact I.
  - rewrite G. exact I.
Qed.

(* a PDU which ends before the last described parameter is rejected with a decode error *)
Theorem flat_truncated_rejected fl m :
  (forall x, In x fl -> fwf x) -> blen m < total_bytes fl ->
  decode_msg (map mkp fl) m = Err EDecode \/ decode_msg (map mkp fl) m = Err EMismatch.
Proof.
  intros Hw Hshort. destruct (flat_fuel fl) as (k & Hk). rewrite (decode_msg_flat fl m k Hk).
  destruct (dec_go_cases k fl (mkD m 0 0 0 []) [] Hw) as [(kv & s1 & G & Hl)|[G|G]].
  - cbn. pose proof (blen_nonneg m). lia.
  - cbn [d_cur d_msg] in Hl. lia.
  - left. rewrite G. reflexivity.
  - right. rewrite G. reflexivity.
Qed.

(* conversely a decoded PDU is at least as long as the description, and the description's length is the static length *)
Corollary flat_decoded_is_long_enough fl m v :
  (forall x, In x fl -> fwf x) -> decode_msg (map mkp fl) m = Ok v -> total_bytes fl <= blen m.
Proof.
  intros Hw Hd. destruct (Z_lt_le_dec (blen m) (total_bytes fl)) as [Hs|Hs]; [|exact Hs].
  destruct (flat_truncated_rejected fl m Hw Hs) as [E|E]; rewrite E in Hd; discriminate.
Qed.

Example flat_decode_example :
  let fl := [mkF [115] 8 BUint None true BUint (Some (VInt 34)); mkF [97] 12 BUint None false BUint None] in
  (forall x, In x fl -> fwf x) /\ total_bytes fl = 3 /\
  decode_msg (map mkp fl) [34; 1] = Err EDecode /\
  decode_msg (map mkp fl) [34; 1; 2; 9] = Ok (VDict [([115], VInt 34); ([97], VInt 513)]).
Proof.
  intros fl. split; [|split; [|split]].
  - intros x [<-|[<-|[]]]; split; (reflexivity || lia).
  - reflexivity.
  - vm_compute. reflexivity.
  - vm_compute. reflexivity.
Qed.

(* the same in terms of what the library reports: a PDU with fewer bits than the static bit length *)
Theorem flat_shorter_than_static_rejected fl m sb :
  (forall x, In x fl -> fwf x) -> static_bits_msg (map mkp fl) = Some sb -> 8 * blen m < sb ->
  decode_msg (map mkp fl) m = Err EDecode \/ decode_msg (map mkp fl) m = Err EMismatch.
Proof.
  intros Hw Hs Hlt. rewrite flat_static_length in Hs by (intros x Hx; apply (Hw x Hx)).
  apply flat_truncated_rejected; [exact Hw|]. unfold total_bytes.
  set (t := fold_right (fun x a => fbytes x + a) 0 fl) in *. assert (sb = 8 * t) by congruence. lia.
Qed.
