(* Composite level, second fragment: arbitrarily nested STRUCTUREs of standard-length
   CODED-CONST / VALUE parameters with implicit positions.  Encoding appends, decoding reads
   back: proved by abstracting "parameter p appends its encoding and reads it back" (appends),
   showing it for leaves (Proofs/FlatProofs.v), for sequences (loop lemma) and for a structure
   whose members have it, then by induction on the nesting depth. *)
From Coq Require Import ZArith List Bool Lia.
From OV Require Import Base.Bytes Base.Wire Model.Str Model.Codec Proofs.BytesProofs Proofs.AtomicProofs Proofs.FlatProofs.
Import ListNotations.
Open Scope Z_scope.

(* p, handed the value vin (None: the caller passes nothing, a constant), appends its encoding to
   the message, and decoding p at that position of any extension of the message yields vout *)
Definition appends (fe fd : nat) (p : param) (vin : option value) (vout : value) : Prop :=
  forall s kv, at_end s -> lookup (pname p) kv = vin ->
    exists s' w,
      enc_param fe p kv s = Ok s' /\ at_end s' /\ e_warn s' = e_warn s /\ e_origin s' = e_origin s /\
      e_msg s' = e_msg s ++ w /\
      forall r o lk, dec_param fd p (mkD (e_msg s' ++ r) o (e_cur s) 0 lk)
                     = Ok (vout, mkD (e_msg s' ++ r) o (e_cur s') 0 lk).

Definition appends_ge (n m : nat) (p : param) (vin : option value) (vout : value) : Prop :=
  forall fe fd, (n <= fe)%nat -> (m <= fd)%nat -> appends fe fd p vin vout.

(* ---------- leaves ---------- *)
Lemma leaf_appends x v : fits x v -> appends_ge 2 2 (mkp x) (if is_value x then Some v else None) v.
Proof.
  intros Hfit fe fd Hfe Hfd s kv Hend Hl.
  destruct fe as [|[|fe]]; try lia. destruct fd as [|[|fd]]; try lia.
  rewrite pname_mkp in Hl.
  destruct (enc_flat_param fe x kv s v Hend Hfit Hl)
    as (s' & w & He & Hend' & Hm & Hw & Hc & Hwarn & Ho & Hread).
  exists s', w. repeat split; auto; try apply Hend'.
  intros r o lk. destruct Hfit as (_ & _ & _ & Hbt & _ & _).
  apply dec_flat_param; auto.
Qed.

(* ---------- sequences ---------- *)
Record member := mkM { m_p : param; m_in : option value; m_out : value }.
Definition m_name (m : member) : name := pname (m_p m).
Definition in_dict (ms : list member) : list (name * value) :=
  flat_map (fun m => match m_in m with Some v => [(m_name m, v)] | None => [] end) ms.
Definition out_dict (ms : list member) : list (name * value) := map (fun m => (m_name m, m_out m)) ms.
Definition out_step (a : list (name * value)) (m : member) := update (m_name m) (m_out m) a.

Lemma seq_loop fe fd kv n oe : forall ms s i,
  at_end s ->
  (forall m, In m ms -> appends fe fd (m_p m) (m_in m) (m_out m) /\ lookup (m_name m) kv = m_in m) ->
  exists s' w,
    enc_go fe kv n oe (map m_p ms) i s = Ok s' /\ at_end s' /\ e_warn s' = e_warn s /\
    e_origin s' = e_origin s /\ e_msg s' = e_msg s ++ w /\
    forall r o lk acc,
      dec_go fd (map m_p ms) (mkD (e_msg s' ++ r) o (e_cur s) 0 lk) acc =
      Ok (fold_left out_step ms acc, mkD (e_msg s' ++ r) o (e_cur s') 0 lk).
Proof.
  induction ms as [|m ms IH]; intros s i Hend Hg.
  - exists s, []. cbn [map enc_go dec_go fold_left]. rewrite app_nil_r.
    split; [reflexivity|]. split; [exact Hend|]. do 3 (split; [reflexivity|]).
    intros r o lk acc. reflexivity.
  - destruct (Hg m (or_introl eq_refl)) as (Ha & Hl).
    set (s0 := if i =? n - 1 then set_eop s oe else s).
    assert (Hend0 : at_end s0) by (unfold s0; destruct (i =? n - 1); auto using at_end_set_eop).
    assert (E0 : e_msg s0 = e_msg s /\ e_cur s0 = e_cur s /\ e_warn s0 = e_warn s /\ e_origin s0 = e_origin s)
      by (unfold s0; destruct (i =? n - 1); repeat split; reflexivity).
    destruct E0 as (Em0 & Ec0 & Ew0 & Eo0).
    destruct (Ha s0 kv Hend0 Hl) as (s1 & w1 & He1 & Hend1 & Hwarn1 & Ho1 & Hm1 & Hread1).
    destruct (IH s1 (i + 1) Hend1 (fun y Hy => Hg y (or_intror Hy)))
      as (s' & w2 & He2 & Hend2 & Hwarn2 & Ho2 & Hm2 & Hdec2).
    exists s', (w1 ++ w2). split; [|split; [|split; [|split; [|split]]]].
    + cbn [map enc_go]. fold s0. rewrite He1. cbn [bind]. exact He2.
    + exact Hend2.
    + congruence.
    + congruence.
    + rewrite Hm2, Hm1, Em0. now rewrite app_assoc.
    + intros r o lk acc. cbn [map dec_go].
      assert (R1 : e_msg s' ++ r = e_msg s1 ++ (w2 ++ r)) by (rewrite Hm2; now rewrite <- app_assoc).
      rewrite R1. rewrite <- Ec0. rewrite Hread1. cbn [bind]. rewrite <- R1. fold (m_name m).
      rewrite Hdec2. reflexivity.
Qed.

(* dictionaries of a sequence with distinct names *)
Lemma lookup_in_dict : forall ms m,
  NoDup (map m_name ms) -> In m ms -> lookup (m_name m) (in_dict ms) = m_in m.
Proof.
  induction ms as [|y ms IH]; intros m ND Hm; [contradiction|].
  inversion ND as [|? ? Hy ND']. subst. cbn [in_dict flat_map].
  assert (G : forall l, ~ In (m_name y) (map m_name l) -> lookup (m_name y) (in_dict l) = None).
  { induction l as [|z l IHl]; intros Hn; [reflexivity|]. cbn [in_dict flat_map].
    assert (Hz : m_name y <> m_name z) by (intros E; apply Hn; left; now rewrite E).
    assert (Hr : ~ In (m_name y) (map m_name l)) by (intros Hin; apply Hn; now right).
    destruct (m_in z); cbn [app lookup]; [|now apply IHl].
    destruct (bytes_eqb (m_name y) (m_name z)) eqn:E; [apply bytes_eqb_eq in E; contradiction | now apply IHl]. }
  destruct Hm as [->|Hm].
  - destruct (m_in m) eqn:Ei; cbn [app lookup].
    + assert (E : bytes_eqb (m_name m) (m_name m) = true) by now apply bytes_eqb_eq. now rewrite E.
    + now apply G.
  - assert (Hne : m_name m <> m_name y) by (intros E; apply Hy; rewrite <- E; now apply in_map).
    destruct (m_in y); cbn [app lookup].
    + destruct (bytes_eqb (m_name m) (m_name y)) eqn:E; [apply bytes_eqb_eq in E; contradiction | now apply IH].
    + now apply IH.
Qed.

Lemma fold_out_nodup : forall ms acc,
  NoDup (map m_name ms) -> (forall m, In m ms -> ~ In (m_name m) (map fst acc)) ->
  fold_left out_step ms acc = acc ++ out_dict ms.
Proof.
  induction ms as [|x ms IH]; intros acc ND Hf; cbn [fold_left out_dict map]; [now rewrite app_nil_r|].
  inversion ND as [|? ? Hx ND']. subst.
  unfold out_step at 2. rewrite update_fresh by (apply Hf; now left).
  rewrite IH; auto.
  - rewrite <- app_assoc. reflexivity.
  - intros y Hy. rewrite map_app, in_app_iff. intros [H|[H|[]]].
    + apply (Hf y (or_intror Hy)). exact H.
    + cbn in H. apply Hx. rewrite H. now apply in_map.
Qed.

Lemma known_members : forall ms ms',
  incl ms ms' ->
  forallb (fun k => existsb (fun p => bytes_eqb (fst k) (pname p)) (map m_p ms')) (in_dict ms) = true.
Proof.
  induction ms as [|x ms IH]; intros ms' Hi; cbn [in_dict flat_map]; [reflexivity|].
  assert (R : forallb (fun k => existsb (fun p => bytes_eqb (fst k) (pname p)) (map m_p ms')) (in_dict ms) = true)
    by (apply IH; intros y Hy; apply Hi; now right).
  destruct (m_in x); cbn [app forallb]; [|exact R].
  apply andb_true_iff. split; [|exact R].
  apply existsb_exists. exists (m_p x). split; [apply in_map, Hi; now left|].
  cbn. now apply bytes_eqb_eq.
Qed.

(* the LENGTH-KEY pass does nothing if no member is a length key *)
Definition no_lenkey (p : param) : Prop := match pkind_of p with KLenKey _ => False | _ => True end.
Lemma keys_none f : forall ps s, (forall p, In p ps -> no_lenkey p) -> keys_go f ps s = Ok s.
Proof.
  induction ps as [|p ps IH]; intros s H; cbn [keys_go]; [reflexivity|].
  pose proof (H p (or_introl eq_refl)) as Hp. destruct p as [nm bp bt k]. unfold no_lenkey in Hp. cbn [pkind_of] in Hp.
  destruct k; try contradiction; apply IH; intros q Hq; apply H; now right.
Qed.

(* ---------- a structure whose members append ---------- *)
Definition struct_param (nm : name) (ms : list member) : param :=
  P nm None None (KValue (DStruct (map m_p ms) None) None).

Lemma struct_appends n m nm ms :
  (forall x, In x ms -> appends_ge n m (m_p x) (m_in x) (m_out x) /\ no_lenkey (m_p x)) ->
  NoDup (map m_name ms) ->
  appends_ge (3 + n) (3 + m) (struct_param nm ms) (Some (VDict (in_dict ms))) (VDict (out_dict ms)).
Proof.
  intros Hms ND fe fd Hfe Hfd s kv Hend Hl.
  destruct fe as [|[|[|fe]]]; try lia. destruct fd as [|[|[|fd]]]; try lia.
  assert (Hn : (n <= fe)%nat) by lia. assert (Hm : (m <= fd)%nat) by lia.
  cbn [struct_param pname] in Hl.
  set (kv' := in_dict ms).
  set (s0 := set_eop (set_origin (set_bit s 0) (e_cur (set_bit s 0))) false).
  assert (Hend0 : at_end s0) by (destruct Hend as (A & B & C & D); repeat split; auto).
  assert (Hg : forall x, In x ms -> appends fe fd (m_p x) (m_in x) (m_out x) /\ lookup (m_name x) kv' = m_in x).
  { intros x Hx. split; [apply (proj1 (Hms x Hx)); lia | now apply lookup_in_dict]. }
  destruct (seq_loop fe fd kv' (zlen (map m_p ms)) (e_eop (set_bit s 0)) ms s0 0 Hend0 Hg)
    as (s' & w & He & Hend' & Hwarn & Ho & Hmsg & Hdec).
  exists (set_bit (set_origin (set_cur (set_eop s' false) (e_cur (set_eop s' false))) (e_origin (set_bit s 0))) 0), w.
  split; [|split; [|split; [|split; [|split]]]].
  - unfold struct_param. cbn [enc_param]. unfold is_required. cbn [pkind_of]. rewrite Hl. cbn [negb orb guard bind].
    unfold vget. rewrite Hl. cbn [is_none negb guard bind opt_or0].
    cbn [enc_dop]. cbn [enc_composite].
    no_own_keys ltac:(intros p Hp; apply in_map_iff in Hp as (x & <- & Hx); apply (proj2 (Hms x Hx))).
    destruct Hend as (Hb & _). cbn [set_bit e_bit Z.eqb guard bind].
    fold kv'. pose proof (known_members ms ms (incl_refl ms)) as Hkm. fold kv' in Hkm. rewrite Hkm. cbn [guard bind].
    unfold enc_go in He. unfold s0 in He. rewrite He. cbn [bind].
    pose proof (keys_none fe (map m_p ms) (set_eop s' false)) as Hkeys. unfold keys_go in Hkeys.
    rewrite Hkeys.
    + cbn [bind]. reflexivity.
    + intros p Hp. apply in_map_iff in Hp as (x & <- & Hx). apply (proj2 (Hms x Hx)).
  - destruct Hend' as (A & B & C & D). repeat split; auto.
  - cbn. rewrite Hwarn. reflexivity.
  - cbn. reflexivity.
  - cbn. rewrite Hmsg. reflexivity.
  - intros r o lk. unfold struct_param. cbn [dec_param]. cbn [opt_or0 dset_bit d_msg d_origin d_cur d_lkeys].
    cbn [dec_dop]. cbn [dec_composite]. cbn [set_bit set_origin set_cur set_eop e_msg e_cur].
    cbn [dset_bit dset_origin d_msg d_origin d_cur d_bit d_lkeys].
    specialize (Hdec r (e_cur s) lk []). unfold dec_go in Hdec.
    cbn [s0 set_eop set_origin set_bit e_cur] in Hdec.
    change (dset_origin (dset_bit (mkD (e_msg s' ++ r) o (e_cur s) 0 lk) 0) (e_cur s))
      with (mkD (e_msg s' ++ r) (e_cur s) (e_cur s) 0 lk).
    rewrite Hdec. cbn [bind fst snd].
    cbn [dset_bit dset_origin d_msg d_origin d_cur d_bit d_lkeys].
    rewrite fold_out_nodup; auto.
Qed.

(* ---------- trees ---------- *)
(* FLeafM: any parameter which has been shown to append (the leaf lemmas below) *)
Inductive ftree := FLeaf (x : fdesc) (v : value) | FLeafM (m : member) | FNode (nm : name) (cs : list ftree).

Fixpoint t_member (t : ftree) : member :=
  match t with
  | FLeaf x v => mkM (mkp x) (if is_value x then Some v else None) v
  | FLeafM m => m
  | FNode nm cs =>
    let ms := map t_member cs in
    mkM (struct_param nm ms) (Some (VDict (in_dict ms))) (VDict (out_dict ms))
  end.

Fixpoint depth (t : ftree) : nat :=
  match t with
  | FLeaf _ _ => 0
  | FLeafM _ => 0
  | FNode _ cs => S (fold_right (fun c a => Nat.max (depth c) a) 0%nat cs)
  end.

Fixpoint wf (t : ftree) : Prop :=
  match t with
  | FLeaf x v => fits x v
  | FLeafM m => appends_ge 2 2 (m_p m) (m_in m) (m_out m) /\ no_lenkey (m_p m)
  | FNode nm cs =>
    NoDup (map (fun c => m_name (t_member c)) cs) /\
    (fix all (l : list ftree) : Prop := match l with [] => True | c :: r => wf c /\ all r end) cs
  end.

Lemma wf_children nm cs : wf (FNode nm cs) ->
  NoDup (map m_name (map t_member cs)) /\ forall c, In c cs -> wf c.
Proof.
  cbn [wf]. intros [ND Hall]. split; [now rewrite map_map|].
  induction cs as [|c cs IH]; intros x Hx; [contradiction|]. destruct Hall as [Hc Hr].
  destruct Hx as [<-|Hx]; [exact Hc|]. apply IH; auto. now inversion ND.
Qed.

Lemma depth_children nm cs c : In c cs -> (depth c < depth (FNode nm cs))%nat.
Proof.
  cbn [depth]. induction cs as [|x cs IH]; intros H; [contradiction|]. cbn [fold_right].
  destruct H as [<-|H]; [lia|]. specialize (IH H). lia.
Qed.

Lemma member_no_lenkey t : wf t -> no_lenkey (m_p (t_member t)).
Proof.
  destruct t as [x v|m|nm cs]; cbn [t_member m_p wf].
  - intros _. unfold mkp, no_lenkey. destruct (f_const x); exact I.
  - now intros [_ H].
  - intros _. exact I.
Qed.

Lemma appends_ge_weaken n m n' m' p vin vout :
  appends_ge n m p vin vout -> (n <= n')%nat -> (m <= m')%nat -> appends_ge n' m' p vin vout.
Proof. intros H Hn Hm fe fd Hfe Hfd. apply H; lia. Qed.

Theorem tree_appends : forall d t,
  (depth t <= d)%nat -> wf t ->
  appends_ge (3 * d + 2) (3 * d + 2) (m_p (t_member t)) (m_in (t_member t)) (m_out (t_member t)).
Proof.
  induction d as [|d IH]; intros t Hd Hwf.
  - destruct t as [x v|m|nm cs]; [| |cbn [depth] in Hd; lia].
    + cbn [t_member m_p m_in m_out]. now apply leaf_appends.
    + cbn [t_member]. exact (proj1 Hwf).
  - destruct t as [x v|m|nm cs].
    + cbn [t_member m_p m_in m_out]. eapply appends_ge_weaken; [now apply leaf_appends | lia | lia].
    + cbn [t_member]. eapply appends_ge_weaken; [exact (proj1 Hwf) | lia | lia].
    + destruct (wf_children nm cs Hwf) as [ND Hc].
      cbn [t_member m_p m_in m_out].
      replace (3 * S d + 2)%nat with (3 + (3 * d + 2))%nat by lia.
      apply struct_appends; [|exact ND].
      intros x Hx. apply in_map_iff in Hx as (c & <- & Hin). split; [|apply member_no_lenkey; now apply Hc].
      apply IH; [|now apply Hc]. pose proof (depth_children nm cs c Hin). lia.
Qed.

(* ---------- messages: a list of trees ---------- *)
Theorem tree_message_roundtrip ts d :
  (forall t, In t ts -> (depth t <= d)%nat /\ wf t) ->
  NoDup (map (fun t => m_name (t_member t)) ts) ->
  let ms := map t_member ts in
  let ps := map m_p ms in
  (3 * d + 3 <= fuel_of ps)%nat ->
  exists msg,
    encode_msg ps None (VDict (in_dict ms)) = Ok (msg, false) /\
    decode_msg ps msg = Ok (VDict (out_dict ms)).
Proof.
  intros Hts ND ms ps Hfuel.
  assert (ND' : NoDup (map m_name ms)) by (unfold ms; now rewrite map_map).
  destruct (fuel_of ps) as [|F] eqn:EF; [lia|].
  set (kv := in_dict ms).
  set (s0 := set_eop (set_origin (estate0 None) (e_cur (estate0 None))) false).
  assert (Hend0 : at_end s0) by (repeat split; reflexivity).
  assert (Hg : forall x, In x ms -> appends F F (m_p x) (m_in x) (m_out x) /\ lookup (m_name x) kv = m_in x).
  { intros x Hx. split; [|now apply lookup_in_dict].
    unfold ms in Hx. apply in_map_iff in Hx as (t & <- & Ht). destruct (Hts t Ht) as [Hd Hw].
    apply (tree_appends d t Hd Hw); lia. }
  destruct (seq_loop F F kv (zlen ps) (e_eop (estate0 None)) ms s0 0 Hend0 Hg)
    as (s' & w & He & Hend' & Hwarn & Ho & Hm & Hdec).
  exists (e_msg s'). split.
  - unfold encode_msg. rewrite EF. cbn [enc_composite].
    no_own_keys ltac:(intros p Hp; unfold ps, ms in Hp; rewrite map_map in Hp; apply in_map_iff in Hp as (t & <- & Ht);
                      apply member_no_lenkey; now apply Hts).
    cbn [estate0 e_bit Z.eqb guard bind].
    pose proof (known_members ms ms (incl_refl ms)) as Hkm. fold ps in Hkm. fold kv in Hkm. rewrite Hkm.
    cbn [guard bind].
    unfold enc_go in He. fold ps in He. unfold s0 in He. rewrite He. cbn [bind].
    pose proof (keys_none F ps (set_eop s' false)) as Hkeys. unfold keys_go in Hkeys.
    rewrite Hkeys.
    + cbn [bind e_msg e_warn set_origin set_cur set_eop]. rewrite Hwarn. reflexivity.
    + intros p Hp. unfold ps, ms in Hp. rewrite map_map in Hp. apply in_map_iff in Hp as (t & <- & Ht).
      apply member_no_lenkey. now apply Hts.
  - unfold decode_msg. rewrite EF. cbn [dec_composite dstate0 d_origin d_cur dset_origin d_msg d_bit d_lkeys].
    specialize (Hdec [] 0 [] []). rewrite app_nil_r in Hdec. unfold dec_go in Hdec. fold ps in Hdec.
    cbn [s0 estate0 e_cur set_eop set_origin] in Hdec.
    change (dset_origin (dstate0 (e_msg s')) 0) with (mkD (e_msg s') 0 0 0 []).
    rewrite Hdec. cbn [bind fst].
    rewrite fold_out_nodup; auto.
Qed.

(* a request with a nested structure: service id, a structure of two values one of which is a
   structure again, a trailing value *)
Example tree_example :
  let u8 nm := mkF nm 8 BUint None true BUint None in
  let ts := [FLeaf (mkF [115] 8 BUint None true BUint (Some (VInt 34))) (VInt 34);
             FNode [111] [FLeaf (u8 [97]) (VInt 1);
                          FNode [105] [FLeaf (mkF [98] 12 BUint None false BUint None) (VInt 2748); FLeaf (u8 [99]) (VInt 3)]];
             FLeaf (u8 [122]) (VInt 255)] in
  let ms := map t_member ts in
  let ps := map m_p ms in
  encode_msg ps None (VDict (in_dict ms)) = Ok ([34; 1; 188; 10; 3; 255], false) /\
  decode_msg ps [34; 1; 188; 10; 3; 255] = Ok (VDict (out_dict ms)) /\
  (3 * 2 + 3 <= fuel_of ps)%nat.
Proof. cbv zeta. split; [vm_compute; reflexivity|]. split; [vm_compute; reflexivity|]. vm_compute. lia. Qed.

(* ====================================================================================== *)
(* further leaf kinds                                                                      *)
(* ====================================================================================== *)

Lemma atom_eqb_refl_instance bt v : isinstance_bt bt v = true -> atom_eqb v v = true.
Proof.
  destruct bt, v; cbn; try discriminate; intros _; try apply Z.eqb_refl; try (now apply bytes_eqb_eq).
Qed.

(* ---------- PHYS-CONST over a standard-length DOP ---------- *)
Definition physconst_param (x : fdesc) (cv : value) : param :=
  P (f_name x) None None (KPhysConst (DSimple (Std (f_bt x) (f_en x) (f_hl x) (f_bl x) None) CIdent (f_pt x)) cv).

Lemma physconst_appends x cv :
  f_const x = None -> fits x cv -> appends_ge 2 2 (physconst_param x cv) None cv.
Proof.
  intros Hc (Hbl & Hwide & Hpt & Hbt & Hcod & _) fe fd Hfe Hfd s kv Hend Hl.
  destruct fe as [|[|fe]]; try lia. destruct fd as [|[|fd]]; try lia.
  cbn [physconst_param pname] in Hl.
  destruct (emplace_val_at_end (set_bit s 0) cv (f_bl x) (f_bt x) (f_en x) (f_hl x) (at_end_set_bit s Hend) Hbl Hwide Hcod)
    as (s1 & w & He & Hend1 & Hm & Hw & Hcur & Hwarn & Ho & Heop & Hlk & Hkp & Hrq & Hread).
  cbn [set_bit e_msg e_cur e_warn e_origin e_eop e_lkeys e_keypos e_req] in *.
  exists (set_bit s1 0), w. split; [|split; [|split; [|split; [|split]]]].
  - unfold physconst_param. cbn [enc_param]. unfold is_required. cbn [pkind_of negb orb guard bind].
    unfold vget. rewrite Hl. cbn [is_none orb guard bind opt_or0].
    cbn [enc_dop]. cbn [valid_phys]. rewrite Hpt. cbn [guard bind p2i valid_int dct_bt]. rewrite Hbt. cbn [guard bind enc_dct std_apply_mask std_used_mask].
    rewrite He. reflexivity.
  - destruct Hend1 as (A & B & C & D). repeat split; auto.
  - cbn. exact Hwarn.
  - cbn. exact Ho.
  - cbn. exact Hm.
  - intros r o lk. unfold physconst_param. cbn [dec_param]. cbn [opt_or0 dset_bit d_msg d_origin d_cur d_lkeys].
    cbn [dec_dop dec_dct]. unfold dset_bit at 1. cbn [d_msg d_origin d_cur d_lkeys]. cbn [set_bit e_msg e_cur].
    rewrite Hread. cbn [bind]. cbn [valid_int dct_bt]. rewrite Hbt. cbn [i2p bind fst snd].
    rewrite (atom_eqb_refl_instance _ _ Hbt). cbn [fst snd dset_bit d_msg d_origin d_cur d_lkeys]. reflexivity.
Qed.

(* ---------- a byte field with LEADING-LENGTH-INFO-TYPE ---------- *)
Definition leading_param (nm : name) (bl : Z) (hl : bool) : param :=
  P nm None None (KValue (DSimple (Leading BBytes None hl bl) CIdent BBytes) None).

Lemma emplace_empty_at_end s : at_end s ->
  exists s', emplace_bytes (set_bit s 0) [] None = Ok s' /\ at_end s' /\ e_msg s' = e_msg s /\ e_cur s' = e_cur s /\
             e_warn s' = e_warn s /\ e_origin s' = e_origin s.
Proof.
  intros (Hb & Hc & Hu & Hok). unfold emplace_bytes. cbn [set_bit e_bit Z.eqb negb e_cur e_msg e_used].
  cbn [blen List.length Z.of_nat]. rewrite Z.add_0_r.
  assert (G1 : grow (e_cur s) (e_msg s) = e_msg s) by (unfold grow; rewrite Hc, Z.sub_diag; apply app_nil_r).
  assert (G2 : grow (e_cur s) (e_used s) = e_used s) by (unfold grow; rewrite Hu, Z.sub_diag; apply app_nil_r).
  rewrite G1, G2.
  assert (S1 : forall m : list Z, e_cur s = blen m -> splice (e_cur s) [] m = m).
  { intros m Hm. unfold splice, take, drop. cbn [app blen List.length Z.of_nat]. rewrite Z.add_0_r, Hm.
    unfold blen. rewrite Nat2Z.id, firstn_all, skipn_all. apply app_nil_r. }
  eexists. split; [reflexivity|]. cbn.
  rewrite (S1 (e_msg s) Hc). rewrite (S1 (e_used s)) by (symmetry; exact Hu).
  repeat split; auto; try lia. apply orb_false_r.
Qed.

Lemma codable_bytes b hl : bytes_ok b = true -> 0 < blen b -> codable (VBytes b) (8 * blen b) BBytes None hl.
Proof.
  intros Hok Hn. assert (Hr : raw_of (VBytes b) (8 * blen b) BBytes None hl = Ok (be_int b)).
  { unfold raw_of. now rewrite Z.eqb_refl. }
  destruct (bytes_raw_roundtrip b (8 * blen b) None hl (be_int b) Hok Hr) as [A B].
  exists (be_int b). auto.
Qed.

Lemma leading_appends nm bl hl b :
  0 < bl <= 64 -> bytes_ok b = true -> blen b < 2 ^ bl ->
  appends_ge 2 2 (leading_param nm bl hl) (Some (VBytes b)) (VBytes b).
Proof.
  intros Hbl Hok Hlen fe fd Hfe Hfd s kv Hend Hl.
  destruct fe as [|[|fe]]; try lia. destruct fd as [|[|fd]]; try lia.
  cbn [leading_param pname] in Hl. pose proof (blen_nonneg b) as Hnn.
  (* the length *)
  destruct (emplace_val_at_end (set_bit s 0) (VInt (blen b)) bl BUint None hl (at_end_set_bit s Hend) ltac:(lia)
              ltac:(cbn [is_numeric andb]; lia) (codable_uint (blen b) bl hl ltac:(lia) ltac:(lia)))
    as (s1 & w1 & He1 & Hend1 & Hm1 & Hw1 & Hc1 & Hwarn1 & Ho1 & _ & _ & _ & _ & Hread1).
  cbn [set_bit e_msg e_cur e_warn e_origin] in *.
  (* the bytes *)
  assert (S2 : exists s2 w2,
             emplace_atomic s1 (VBytes b) (8 * blen b) BBytes None hl None = Ok s2 /\ at_end s2 /\
             e_msg s2 = e_msg s1 ++ w2 /\ e_warn s2 = e_warn s1 /\ e_origin s2 = e_origin s1 /\
             forall r o lk, extract_atomic (mkD (e_msg s2 ++ r) o (e_cur s1) 0 lk) (8 * blen b) BBytes None hl
                            = Ok (VBytes b, mkD (e_msg s2 ++ r) o (e_cur s2) 0 lk)).
  { destruct (Z.eq_dec (blen b) 0) as [Z0|NZ].
    - assert (b = []) by (destruct b; [reflexivity | unfold blen in Z0; cbn in Z0; lia]). subst b.
      destruct (emplace_empty_at_end s1 Hend1) as (s2 & He2 & Hend2 & Hm2 & Hc2 & Hw2 & Ho2).
      exists s2, []. split; [|split; [exact Hend2|split; [now rewrite app_nil_r|split; [exact Hw2|split; [exact Ho2|]]]]].
      + unfold emplace_atomic. cbn. exact He2.
      + intros r o lk. unfold extract_atomic. cbn. rewrite Hm2, Hc2. reflexivity.
    - destruct (emplace_val_at_end s1 (VBytes b) (8 * blen b) BBytes None hl Hend1 ltac:(lia) eq_refl
                  (codable_bytes b hl Hok ltac:(lia)))
        as (s2 & w2 & He2 & Hend2 & Hm2 & Hw2 & Hc2 & Hwarn2 & Ho2 & _ & _ & _ & _ & Hread2).
      exists s2, w2. repeat split; auto; apply Hend2. }
  destruct S2 as (s2 & w2 & He2 & Hend2 & Hm2 & Hwarn2 & Ho2 & Hread2).
  exists (set_bit s2 0), (w1 ++ w2). split; [|split; [|split; [|split; [|split]]]].
  - unfold leading_param. cbn [enc_param]. unfold is_required. cbn [pkind_of]. rewrite Hl. cbn [negb orb guard bind].
    unfold vget. rewrite Hl. cbn [is_none negb guard bind opt_or0].
    cbn [enc_dop]. cbn [valid_phys isinstance_bt guard bind p2i valid_int dct_bt enc_dct]. rewrite He1. cbn [bind]. rewrite He2. reflexivity.
  - destruct Hend2 as (A & B & C & D). repeat split; auto.
  - cbn. congruence.
  - cbn. congruence.
  - cbn. rewrite Hm2, Hm1. now rewrite app_assoc.
  - intros r o lk. unfold leading_param. cbn [dec_param]. cbn [opt_or0 dset_bit d_msg d_origin d_cur d_lkeys].
    cbn [dec_dop dec_dct]. unfold dset_bit at 1. cbn [d_msg d_origin d_cur d_lkeys]. cbn [set_bit e_msg e_cur].
    assert (R1 : e_msg s2 ++ r = e_msg s1 ++ (w2 ++ r)) by (rewrite Hm2; now rewrite <- app_assoc).
    rewrite R1, Hread1. cbn [bind]. rewrite <- R1, Hread2. cbn [bind].
    cbn [valid_int dct_bt isinstance_bt i2p bind fst snd dset_bit d_msg d_origin d_cur d_lkeys]. reflexivity.
Qed.

(* a request with a nested structure, a physical constant and a length-prefixed byte field *)
Example tree_example2 :
  let u8 nm := mkF nm 8 BUint None true BUint None in
  let ts := [FLeaf (mkF [115] 8 BUint None true BUint (Some (VInt 34))) (VInt 34);
             FLeafM (mkM (physconst_param (u8 [107]) (VInt 7)) None (VInt 7));
             FNode [111] [FLeaf (u8 [97]) (VInt 1);
                          FLeafM (mkM (leading_param [108] 8 true) (Some (VBytes [170; 187])) (VBytes [170; 187]))];
             FLeafM (mkM (leading_param [101] 16 false) (Some (VBytes [])) (VBytes []))] in
  let ms := map t_member ts in
  let ps := map m_p ms in
  encode_msg ps None (VDict (in_dict ms)) = Ok ([34; 7; 1; 2; 170; 187; 0; 0], false) /\
  decode_msg ps [34; 7; 1; 2; 170; 187; 0; 0] = Ok (VDict (out_dict ms)).
Proof. cbv zeta. split; vm_compute; reflexivity. Qed.
