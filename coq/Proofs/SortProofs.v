(* The parents of a layer are processed in priority order: sort_asc / sort_desc of Model/Inherit.v
   are sorting functions (a permutation of their argument, ordered by the priority of the parent's
   layer type), and what this means for the communication parameters (C15): the parent of strictly
   highest priority among those which know a key decides it. *)
From Coq Require Import ZArith List Bool Lia Sorting.Permutation Sorting.Sorted.
From OV Require Import Base.Bytes Base.Wire Generated Model.Inherit Proofs.InheritProofs Proofs.ComparamProofs.
Import ListNotations.
Open Scope Z_scope.

(* the sort key of a parent reference *)
Definition prk (H : list layer) (p : pref) : Z :=
  match find_layer (p_target p) H with Some x => prio (l_type x) | None => 0 end.

Lemma ins_asc_unfold H p q r :
  ins_asc H p (q :: r) = if prk H p <? prk H q then p :: q :: r else q :: ins_asc H p r.
Proof. reflexivity. Qed.

Lemma ins_desc_unfold H p q r :
  ins_desc H p (q :: r) = if prk H q <? prk H p then p :: q :: r else q :: ins_desc H p r.
Proof. reflexivity. Qed.

Lemma ins_asc_perm H p : forall l, Permutation (ins_asc H p l) (p :: l).
Proof.
  induction l as [|q r IH]; [apply Permutation_refl|].
  rewrite ins_asc_unfold. destruct (prk H p <? prk H q); [apply Permutation_refl|].
  eapply Permutation_trans; [apply perm_skip, IH | apply perm_swap].
Qed.

Lemma ins_desc_perm H p : forall l, Permutation (ins_desc H p l) (p :: l).
Proof.
  induction l as [|q r IH]; [apply Permutation_refl|].
  rewrite ins_desc_unfold. destruct (prk H q <? prk H p); [apply Permutation_refl|].
  eapply Permutation_trans; [apply perm_skip, IH | apply perm_swap].
Qed.

Lemma fold_ins_perm (ins : pref -> list pref -> list pref) :
  (forall p l, Permutation (ins p l) (p :: l)) ->
  forall l acc, Permutation (fold_left (fun acc p => ins p acc) l acc) (l ++ acc).
Proof.
  intros Hins. induction l as [|p l IH]; intros acc; cbn [fold_left app]; [apply Permutation_refl|].
  eapply Permutation_trans; [apply IH|].
  eapply Permutation_trans; [apply Permutation_app_head, Hins|].
  apply Permutation_sym, Permutation_middle.
Qed.

Theorem sort_asc_perm H l : Permutation (sort_asc H l) l.
Proof.
  unfold sort_asc. eapply Permutation_trans; [apply (fold_ins_perm (ins_asc H) (ins_asc_perm H))|].
  rewrite app_nil_r. apply Permutation_refl.
Qed.

Theorem sort_desc_perm H l : Permutation (sort_desc H l) l.
Proof.
  unfold sort_desc. eapply Permutation_trans; [apply (fold_ins_perm (ins_desc H) (ins_desc_perm H))|].
  rewrite app_nil_r. apply Permutation_refl.
Qed.

Definition asc (H : list layer) (a b : pref) : Prop := prk H a <= prk H b.
Definition desc (H : list layer) (a b : pref) : Prop := prk H b <= prk H a.

Lemma ins_asc_sorted H p : forall l, StronglySorted (asc H) l -> StronglySorted (asc H) (ins_asc H p l).
Proof.
  induction l as [|q r IH]; intros S.
  - cbn. constructor; [constructor | constructor].
  - rewrite ins_asc_unfold. inversion S as [|? ? Sr Fq]. subst.
    destruct (prk H p <? prk H q) eqn:E.
    + apply Z.ltb_lt in E. constructor; [exact S|].
      constructor; [unfold asc; lia|].
      eapply Forall_impl; [|exact Fq]. intros x Hx. unfold asc in *. lia.
    + apply Z.ltb_ge in E. constructor; [now apply IH|].
      eapply Permutation_Forall; [apply Permutation_sym, ins_asc_perm|].
      constructor; [exact E | exact Fq].
Qed.

Lemma ins_desc_sorted H p : forall l, StronglySorted (desc H) l -> StronglySorted (desc H) (ins_desc H p l).
Proof.
  induction l as [|q r IH]; intros S.
  - cbn. constructor; [constructor | constructor].
  - rewrite ins_desc_unfold. inversion S as [|? ? Sr Fq]. subst.
    destruct (prk H q <? prk H p) eqn:E.
    + apply Z.ltb_lt in E. constructor; [exact S|].
      constructor; [unfold desc; lia|].
      eapply Forall_impl; [|exact Fq]. intros x Hx. unfold desc in *. lia.
    + apply Z.ltb_ge in E. constructor; [now apply IH|].
      eapply Permutation_Forall; [apply Permutation_sym, ins_desc_perm|].
      constructor; [exact E | exact Fq].
Qed.

Lemma fold_ins_sorted (R : pref -> pref -> Prop) (ins : pref -> list pref -> list pref) :
  (forall p l, StronglySorted R l -> StronglySorted R (ins p l)) ->
  forall l acc, StronglySorted R acc -> StronglySorted R (fold_left (fun acc p => ins p acc) l acc).
Proof. intros Hins. induction l as [|p l IH]; intros acc S; cbn [fold_left]; [exact S|]. apply IH, Hins, S. Qed.

Theorem sort_asc_sorted H l : StronglySorted (asc H) (sort_asc H l).
Proof. unfold sort_asc. apply (fold_ins_sorted (asc H) (ins_asc H) (ins_asc_sorted H)). constructor. Qed.

Theorem sort_desc_sorted H l : StronglySorted (desc H) (sort_desc H l).
Proof. unfold sort_desc. apply (fold_ins_sorted (desc H) (ins_desc H) (ins_desc_sorted H)). constructor. Qed.

Lemma sorted_after (R : pref -> pref -> Prop) : forall l1 x l2,
  StronglySorted R (l1 ++ x :: l2) -> Forall (R x) l2.
Proof.
  induction l1 as [|a l1 IH]; intros x l2 S; cbn [app] in S; inversion S as [|? ? S' F]; subst.
  - exact F.
  - now apply IH.
Qed.

(* ---------- C15: the parent of highest priority which knows the key decides it ---------- *)
Definition knows (f : nat) (H : list clayer) (k : Z * option Z) (p : pref) : Prop :=
  exists PL c, find_cl (p_target p) H = Some PL /\ last_with k (comparams f H PL) = Some c.

Lemma fold_keeps f H k c : forall ps d,
  kget k d = Some c ->
  (forall q, In q ps -> forall PL c', find_cl (p_target q) H = Some PL ->
                                       last_with k (comparams f H PL) = Some c' -> c' = c) ->
  kget k (fold_left (inherit_step f H) ps d) = Some c.
Proof.
  induction ps as [|q ps IH]; intros d Hd Hq; cbn [fold_left]; [exact Hd|].
  apply IH; [|intros q' Hin; apply Hq; now right].
  rewrite kget_inherit_step. destruct (find_cl (p_target q) H) as [PL|] eqn:Ef; [|exact Hd].
  destruct (last_with k (comparams f H PL)) as [c'|] eqn:El; [|exact Hd].
  f_equal. eapply Hq; [now left | exact Ef | exact El].
Qed.

(* p knows the key with c; every parent which knows the key too either refers to the same layer as p
   or is of strictly lower priority: then the inherited dictionary holds c for the key *)
Theorem highest_priority_parent_wins f H L k p PL c :
  In p (cl_parents L) ->
  find_cl (p_target p) H = Some PL -> last_with k (comparams f H PL) = Some c ->
  (forall q, In q (cl_parents L) -> knows f H k q ->
             p_target q = p_target p \/ prk (map as_layer H) q < prk (map as_layer H) p) ->
  kget k (fold_left (inherit_step f H) (sort_asc (map as_layer H) (cl_parents L)) []) = Some c.
Proof.
  intros Hin Hf Hl Hmax.
  set (HL := map as_layer H) in *.
  assert (Hin' : In p (sort_asc HL (cl_parents L))).
  { eapply Permutation_in; [apply Permutation_sym, sort_asc_perm | exact Hin]. }
  destruct (in_split _ _ Hin') as (l1 & l2 & E).
  pose proof (sort_asc_sorted HL (cl_parents L)) as S. rewrite E in S.
  pose proof (sorted_after _ _ _ _ S) as Fa.
  rewrite E, fold_left_app. cbn [fold_left].
  apply fold_keeps.
  - rewrite kget_inherit_step, Hf, Hl. reflexivity.
  - intros q Hq PL' c' Hf' Hl'.
    assert (Hq' : In q (cl_parents L)).
    { eapply Permutation_in; [apply sort_asc_perm|]. rewrite E. apply in_or_app. right. now right. }
    destruct (Hmax q Hq') as [Et|Hlt].
    + exists PL', c'. split; assumption.
    + rewrite Et in Hf'. congruence.
    + rewrite Forall_forall in Fa. specialize (Fa q Hq). unfold asc in Fa. lia.
Qed.

(* ... and with it the layer itself, unless it defines the key locally *)
Corollary comparams_highest_priority_parent_wins f H L k p PL c :
  last_with k (cl_cps L) = None ->
  In p (cl_parents L) ->
  find_cl (p_target p) H = Some PL -> last_with k (comparams f H PL) = Some c ->
  (forall q, In q (cl_parents L) -> knows f H k q ->
             p_target q = p_target p \/ prk (map as_layer H) q < prk (map as_layer H) p) ->
  kget k (comparams (S f) H L) = Some c.
Proof.
  intros Hn Hin Hf Hl Hmax. rewrite comparams_inherited by exact Hn.
  eapply highest_priority_parent_wins; eassumption.
Qed.

(* no parent knows the key and the layer does not define it: the layer does not have it *)
Lemma fold_none f H k : forall ps d,
  kget k d = None -> (forall q, In q ps -> ~ knows f H k q) ->
  kget k (fold_left (inherit_step f H) ps d) = None.
Proof.
  induction ps as [|q ps IH]; intros d Hd Hq; cbn [fold_left]; [exact Hd|].
  apply IH; [|intros q' Hin; apply Hq; now right].
  rewrite kget_inherit_step. destruct (find_cl (p_target q) H) as [PL|] eqn:Ef; [|exact Hd].
  destruct (last_with k (comparams f H PL)) as [c'|] eqn:El; [|exact Hd].
  exfalso. apply (Hq q (or_introl eq_refl)). exists PL, c'. split; assumption.
Qed.

Theorem comparams_unknown_key f H L k :
  last_with k (cl_cps L) = None -> (forall q, In q (cl_parents L) -> ~ knows f H k q) ->
  kget k (comparams (S f) H L) = None.
Proof.
  intros Hn Hq. rewrite comparams_inherited by exact Hn. apply fold_none; [reflexivity|].
  intros q Hin. apply Hq. eapply Permutation_in; [apply sort_asc_perm | exact Hin].
Qed.
