(* C05 for messages with lists: decoding ANY byte string with a message built from standard-length CODED-CONST /
   VALUE parameters, STRUCTUREs (with or without BYTE-SIZE), STATIC-FIELDs, DYNAMIC-LENGTH-FIELDs,
   END-OF-PDU-FIELDs of structures and MULTIPLEXERs (any cases, key ranges and default case; cases with or without
   content), nested to any depth, returns values or a decode error -- no other error
   class, and the loops which run "to the end of the PDU" never run out of fuel (every round consumes a byte). *)
From Coq Require Import ZArith List Bool Lia ZifyBool.
From OV Require Import Base.Bytes Base.Wire Generated Model.Str Model.Codec
     Proofs.BytesProofs Proofs.AtomicProofs Proofs.CodecProps Proofs.FlatProofs Proofs.FlatDecodeProofs
     Proofs.TreeProofs Proofs.TreeWireProofs Proofs.FieldProofs Proofs.DynFieldProofs Proofs.EopFieldProofs
     Proofs.TreeDecodeProofs Proofs.BStructProofs Proofs.MuxProofs.
Import ListNotations.
Open Scope Z_scope.

(* the decoder moved forward in the same message *)
Definition dmono (s s' : dstate) : Prop := d_msg s' = d_msg s /\ d_cur s <= d_cur s'.
Definition tot {A} (r : res (A * dstate)) (s : dstate) : Prop :=
  (exists v s', r = Ok (v, s') /\ dmono s s') \/ derr r.

Definition ptot (fd : nat) (p : param) : Prop := forall s, 0 <= d_cur s -> tot (dec_param fd p s) s.
Definition ptot_ge (k : nat) (p : param) : Prop := forall fd, (k <= fd)%nat -> ptot fd p.
Definition dtot (fd : nat) (d : dop) : Prop := forall s, 0 <= d_cur s -> tot (dec_dop fd d s) s.

Lemma nbytes_nonneg bl : 0 < bl -> 0 <= nbytes_of bl 0.
Proof. intros H. unfold nbytes_of. apply Z.div_pos; lia. Qed.

(* ---------- leaves ---------- *)
Lemma leaf_ptot x : fwf x -> ptot_ge 2 (mkp x).
Proof.
  intros W fd Hfd s _. destruct fd as [|[|f]]; try lia.
  destruct (dec_flat_param_cases f x s W) as [(v & E & _)|E]; [|now right].
  left. eexists _, _. split; [exact E|]. split; [reflexivity|]. cbn [d_cur].
  destruct W as [Hbl _]. pose proof (nbytes_nonneg (f_bl x) Hbl). unfold fbytes. lia.
Qed.

(* ---------- sequences, composites, structures ---------- *)
Lemma go_tot fd : forall ps s acc,
  (forall p, In p ps -> ptot fd p) -> 0 <= d_cur s -> tot (dec_go fd ps s acc) s.
Proof.
  induction ps as [|p ps IH]; intros s acc Hp H0; cbn [dec_go].
  - left. exists acc, s. split; [reflexivity|]. split; [reflexivity | lia].
  - destruct (Hp p (or_introl eq_refl) s H0) as [(v & s1 & E & M1 & M2)|[E|E]].
    + rewrite E. cbn [bind].
      destruct (IH s1 (update (pname p) v acc) (fun q Hq => Hp q (or_intror Hq)) ltac:(lia)) as [(kv & s2 & G & N1 & N2)|G].
      * left. exists kv, s2. split; [exact G|]. split; [congruence | lia].
      * right. exact G.
    + right. left. rewrite E. reflexivity.
    + right. right. rewrite E. reflexivity.
Qed.

Lemma composite_tot fd ps s :
  (forall p, In p ps -> ptot fd p) -> 0 <= d_cur s -> tot (dec_composite (S fd) ps s) s.
Proof.
  intros Hp H0. cbn [dec_composite].
  set (s0 := dset_origin s (d_cur s)).
  assert (H00 : 0 <= d_cur s0) by exact H0.
  match goal with |- tot (bind ?X _) _ => change X with (dec_go fd ps s0 []) end.
  destruct (go_tot fd ps s0 [] Hp H00) as [(kv & s1 & G & N1 & N2)|G].
  - left. rewrite G. cbn [bind]. eexists _, _. split; [reflexivity|]. split; [exact N1 | exact N2].
  - right. destruct G as [G|G]; rewrite G; [left | right]; reflexivity.
Qed.

Lemma struct_dtot fd ps bs :
  (forall p, In p ps -> ptot fd p) -> dtot (S (S fd)) (DStruct ps bs).
Proof.
  intros Hp s H0. cbn [dec_dop].
  destruct (composite_tot fd ps s Hp H0) as [(v & s1 & E & M1 & M2)|[E|E]].
  - rewrite E. cbn [bind]. destruct bs as [b|].
    + destruct (b <? d_cur s1 - d_cur s) eqn:L; [right; left; reflexivity|].
      left. eexists _, _. split; [reflexivity|]. split; [exact M1 | cbn [dset_cur d_cur]; lia].
    + left. eexists _, _. split; [reflexivity|]. split; assumption.
  - right. left. rewrite E. reflexivity.
  - right. right. rewrite E. reflexivity.
Qed.

(* a parameter whose value is a data object *)
Lemma value_ptot fd nm d : dtot fd d -> ptot (S fd) (P nm None None (KValue d None)).
Proof.
  intros Hd s H0. cbn [dec_param opt_or0].
  destruct (Hd (dset_bit s 0) H0) as [(v & s1 & E & M1 & M2)|[E|E]].
  - rewrite E. cbn [bind fst snd]. left. eexists _, _. split; [reflexivity|]. split; [exact M1 | exact M2].
  - right. left. rewrite E. reflexivity.
  - right. right. rewrite E. reflexivity.
Qed.

(* ---------- the item loops ---------- *)
Lemma sdec_tot f sd isz : dtot f sd -> 0 <= isz ->
  forall k s acc, 0 <= d_cur s -> tot (sdec_go f sd isz k s acc) s.
Proof.
  intros Hd Hi. induction k as [|k IH]; intros s acc H0; cbn [sdec_go].
  - left. eexists _, _. split; [reflexivity|]. split; [reflexivity | lia].
  - destruct (Hd s H0) as [(v & s1 & E & M1 & M2)|[E|E]].
    + rewrite E. cbn [bind].
      destruct (IH (dset_cur s1 (d_cur s + isz)) (v :: acc) ltac:(cbn [dset_cur d_cur]; lia)) as [(l & s2 & G & N1 & N2)|G].
      * left. exists l, s2. split; [exact G|]. cbn [dset_cur d_cur d_msg] in N1, N2. split; [congruence | lia].
      * right. exact G.
    + right. left. rewrite E. reflexivity.
    + right. right. rewrite E. reflexivity.
Qed.

Lemma ydec_tot f sd : dtot f sd ->
  forall k s acc, 0 <= d_cur s -> tot (ydec_go f sd k s acc) s.
Proof.
  intros Hd. induction k as [|k IH]; intros s acc H0; cbn [ydec_go].
  - left. eexists _, _. split; [reflexivity|]. split; [reflexivity | lia].
  - destruct (Hd s H0) as [(v & s1 & E & M1 & M2)|[E|E]].
    + rewrite E. cbn [bind].
      destruct (IH s1 (v :: acc) ltac:(lia)) as [(l & s2 & G & N1 & N2)|G].
      * left. exists l, s2. split; [exact G|]. split; [congruence | lia].
      * right. exact G.
    + right. left. rewrite E. reflexivity.
    + right. right. rewrite E. reflexivity.
Qed.

(* to the end of the PDU: the fuel suffices because every round consumes at least one byte *)
Lemma edec_tot f sd : dtot f sd ->
  forall kf s acc, 0 <= d_cur s -> blen (d_msg s) - d_cur s <= Z.of_nat kf -> tot (edec_go f sd kf s acc) s.
Proof.
  intros Hd. induction kf as [|kf IH]; intros s acc H0 Hk.
  - cbn [edec_go]. replace (blen (d_msg s) <=? d_cur s) with true by lia.
    left. eexists _, _. split; [reflexivity|]. split; [reflexivity | lia].
  - cbn [edec_go]. destruct (blen (d_msg s) <=? d_cur s) eqn:L.
    + left. eexists _, _. split; [reflexivity|]. split; [reflexivity | lia].
    + destruct (Hd s H0) as [(v & s1 & E & M1 & M2)|[E|E]].
      * rewrite E. cbn [bind]. destruct (d_cur s1 <=? d_cur s) eqn:L2; [right; left; reflexivity|].
        destruct (IH s1 (v :: acc) ltac:(lia) ltac:(rewrite M1; lia)) as [(l & s2 & G & N1 & N2)|G].
        -- left. exists l, s2. split; [exact G|]. split; [congruence | lia].
        -- right. exact G.
      * right. left. rewrite E. reflexivity.
      * right. right. rewrite E. reflexivity.
Qed.

(* ---------- the fields ---------- *)
Lemma static_dtot f sd n isz : dtot f sd -> 0 <= isz -> forall s, d_bit s = 0 -> 0 <= d_cur s -> tot (dec_dop (S f) (DStatic sd n isz) s) s.
Proof.
  intros Hd Hi s Hb H0. cbn [dec_dop]. rewrite Hb. cbn [Z.eqb guard bind].
  set (s0 := dset_origin s (d_cur s)).
  match goal with |- tot (bind ?X _) _ => change X with (sdec_go f sd isz (Z.to_nat n) s0 []) end.
  destruct (sdec_tot f sd isz Hd Hi (Z.to_nat n) s0 [] H0) as [(l & s1 & G & N1 & N2)|G].
  - left. rewrite G. cbn [bind]. eexists _, _. split; [reflexivity|]. split; [exact N1 | exact N2].
  - right. destruct G as [G|G]; rewrite G; [left | right]; reflexivity.
Qed.

Lemma eop_dtot f sd : dtot f sd -> forall s, d_bit s = 0 -> 0 <= d_cur s -> tot (dec_dop (S f) (DEop sd) s) s.
Proof.
  intros Hd s Hb H0. cbn [dec_dop]. rewrite Hb. cbn [Z.eqb guard bind].
  set (s0 := dset_origin s (d_cur s)).
  assert (Hk : blen (d_msg s0) - d_cur s0 <= Z.of_nat (S (length (d_msg s0)))).
  { cbn [s0 dset_origin d_msg d_cur]. unfold blen. lia. }
  match goal with |- tot (bind ?X _) _ => change X with (edec_go f sd (S (length (d_msg s0))) s0 []) end.
  destruct (edec_tot f sd Hd (S (length (d_msg s0))) s0 [] H0 Hk) as [(l & s1 & G & N1 & N2)|G].
  - left. rewrite G. cbn [bind]. eexists _, _. split; [reflexivity|]. split; [exact N1 | exact N2].
  - right. destruct G as [G|G]; rewrite G; [left | right]; reflexivity.
Qed.

Lemma uint_value v : isinstance_bt BUint v = true -> exists n, v = VInt n.
Proof. destruct v; cbn; intros H; try discriminate. eexists. reflexivity. Qed.

Lemma dyn_dtot f sd bl hl : dtot (S f) sd -> 0 < bl ->
  forall s, d_bit s = 0 -> 0 <= d_cur s ->
  tot (dec_dop (S (S f)) (DDynLen sd (nbytes_of bl 0) 0 0 (count_dop bl hl)) s) s.
Proof.
  intros Hd Hbl s Hb H0. cbn [dec_dop]. rewrite Hb. cbn [Z.eqb guard bind].
  set (sc := dset_bit (dset_cur (dset_origin s (d_cur s)) (d_origin (dset_origin s (d_cur s)) + 0)) 0).
  unfold count_dop. cbn [dec_dct].
  assert (W : wf_atom BUint None hl = true) by (destruct hl; reflexivity).
  destruct (extract_cases sc bl BUint None hl Hbl W) as [(v & E & Hle)|[E|E]].
  - rewrite E. cbn [bind valid_int dct_bt].
    destruct (isinstance_bt BUint v) eqn:Iv; [|right; left; reflexivity].
    destruct (uint_value v Iv) as (n & ->). cbn [i2p bind].
    destruct (0 <=? n) eqn:Ln; cbn [guard bind]; [|right; left; reflexivity].
    set (s1 := dset_cur (mkD (d_msg sc) (d_origin sc) (d_cur sc + nbytes_of bl (d_bit sc)) 0 (d_lkeys sc))
                        (d_origin (mkD (d_msg sc) (d_origin sc) (d_cur sc + nbytes_of bl (d_bit sc)) 0 (d_lkeys sc)) + nbytes_of bl 0)).
    assert (H1 : d_msg s1 = d_msg s /\ d_cur s1 = d_cur s + nbytes_of bl 0) by (split; reflexivity).
    destruct H1 as (M1 & C1). pose proof (nbytes_nonneg bl Hbl) as Hnb.
    match goal with |- tot (bind ?X _) _ => change X with (ydec_go (S f) sd (Z.to_nat n) s1 []) end.
    destruct (ydec_tot (S f) sd Hd (Z.to_nat n) s1 [] ltac:(lia)) as [(l & s2 & G & N1 & N2)|G].
    + left. rewrite G. cbn [bind]. eexists _, _. split; [reflexivity|]. unfold dmono. cbn [dset_origin d_msg d_cur].
      split; [congruence | lia].
    + right. destruct G as [G|G]; rewrite G; [left | right]; reflexivity.
  - right. left. rewrite E. reflexivity.
  - right. right. rewrite E. reflexivity.
Qed.

(* field parameters: the bit position is reset by dec_param *)
Lemma field_ptot fd nm d :
  (forall s, d_bit s = 0 -> 0 <= d_cur s -> tot (dec_dop fd d s) s) -> ptot (S fd) (P nm None None (KValue d None)).
Proof.
  intros Hd s H0. cbn [dec_param opt_or0].
  destruct (Hd (dset_bit s 0) eq_refl H0) as [(v & s1 & E & M1 & M2)|[E|E]].
  - rewrite E. cbn [bind fst snd]. left. eexists _, _. split; [reflexivity|]. split; [exact M1 | exact M2].
  - right. left. rewrite E. reflexivity.
  - right. right. rewrite E. reflexivity.
Qed.

(* ---------- multiplexers ---------- *)
(* the content of a case: the data object of a VALUE parameter (anything else: a case without content) *)
Definition case_dop (p : param) : option dop := match pkind_of p with KValue d _ => Some d | _ => None end.
Definition mk_case (lim : Z * Z) (p : param) : mcase := MC (pname p) (fst lim) (snd lim) (case_dop p).

(* from the parameter to its data object (states at bit position 0, as the multiplexer produces them) *)
Lemma case_dop_tot fd nm k sd :
  ptot (S fd) (P nm None None k) -> case_dop (P nm None None k) = Some sd ->
  forall s, d_bit s = 0 -> 0 <= d_cur s -> tot (dec_dop fd sd s) s.
Proof.
  intros Hp Hc s Hb H0. unfold case_dop in Hc. cbn [pkind_of] in Hc.
  destruct k as [| d dflt | | | | |]; try discriminate. injection Hc as ->.
  specialize (Hp s H0). cbn [dec_param opt_or0] in Hp.
  assert (Es : dset_bit s 0 = s) by (destruct s; cbn in Hb; subst; reflexivity).
  rewrite Es in Hp.
  destruct (dec_dop fd sd s) as [[v s1]|e] eqn:E.
  - cbn [bind fst snd] in Hp. destruct Hp as [(v' & s' & G & M1 & M2)|[G|G]]; try discriminate.
    injection G as <- <-. left. exists v, s1. split; [reflexivity|]. exact (conj M1 M2).
  - cbn [bind] in Hp. destruct Hp as [(v' & s' & G & _)|G]; [discriminate|]. right. exact G.
Qed.

Lemma key_dec f kbl hl s : 0 < kbl ->
  (exists n, dec_dop (S f) (key_dop kbl hl) s =
             Ok (VInt n, mkD (d_msg s) (d_origin s) (d_cur s + nbytes_of kbl (d_bit s)) 0 (d_lkeys s))) \/
  derr (dec_dop (S f) (key_dop kbl hl) s).
Proof.
  intros Hbl. unfold key_dop. cbn [dec_dop dec_dct].
  assert (W : wf_atom BUint None hl = true) by (destruct hl; reflexivity).
  destruct (extract_cases s kbl BUint None hl Hbl W) as [(v & E & Hle)|[E|E]].
  - rewrite E. cbn [bind valid_int dct_bt].
    destruct (isinstance_bt BUint v) eqn:Iv; [|right; left; reflexivity].
    destruct (uint_value v Iv) as (n & ->). cbn [i2p bind]. left. exists n. reflexivity.
  - right. left. rewrite E. reflexivity.
  - right. right. rewrite E. reflexivity.
Qed.

Lemma mux_dtot f kbl hl cases dflt :
  0 < kbl ->
  (forall c sd, In c cases \/ dflt = Some c -> mc_struct c = Some sd ->
                forall s, d_bit s = 0 -> 0 <= d_cur s -> tot (dec_dop (S f) sd s) s) ->
  dtot (S (S f)) (DMux (nbytes_of kbl 0) 0 0 (key_dop kbl hl) cases dflt).
Proof.
  intros Hbl Hc s H0. rewrite dec_dop_mux.
  set (sc := dset_bit (dset_cur (dset_origin s (d_cur s)) (d_origin (dset_origin s (d_cur s)) + 0)) 0).
  cbv zeta. fold sc.
  pose proof (nbytes_nonneg kbl Hbl) as Hnb.
  destruct (key_dec f kbl hl sc Hbl) as [(n & E)|[E|E]].
  - rewrite E. cbn [bind].
    set (s1 := dset_bit (mkD (d_msg sc) (d_origin sc) (d_cur sc + nbytes_of kbl (d_bit sc)) 0 (d_lkeys sc)) 0).
    assert (M1 : d_msg s1 = d_msg s) by reflexivity.
    assert (C1 : d_cur s1 = d_cur s + 0 + nbytes_of kbl 0) by reflexivity.
    assert (O1 : d_origin s1 = d_cur s) by reflexivity.
    destruct (match find (mc_applies n) cases with Some c => Some c | None => dflt end) as [c|] eqn:Sel;
      [|right; left; reflexivity].
    assert (Hin : In c cases \/ dflt = Some c).
    { destruct (find (mc_applies n) cases) as [c'|] eqn:F.
      - injection Sel as <-. left. exact (proj1 (find_some _ _ F)).
      - right. exact Sel. }
    destruct (mc_struct c) as [sd|] eqn:St.
    + set (s2 := dset_cur s1 (d_origin s1 + nbytes_of kbl 0)).
      destruct (Hc c sd Hin St s2 eq_refl ltac:(cbn [s2 dset_cur d_cur]; rewrite O1; lia)) as [(v & s3 & G & N1 & N2)|[G|G]].
      * rewrite G. cbn [bind fst snd]. left. eexists _, _. split; [reflexivity|]. unfold dmono. cbn [dset_origin dset_cur d_msg d_cur].
        cbn [s2 dset_cur d_msg d_cur] in N1, N2. rewrite O1 in N2. split; [congruence | lia].
      * right. left. rewrite G. reflexivity.
      * right. right. rewrite G. reflexivity.
    + cbn [bind fst snd]. left. eexists _, _. split; [reflexivity|]. unfold dmono. cbn [dset_origin d_msg d_cur].
      split; [exact M1 | lia].
  - right. left. rewrite E. reflexivity.
  - right. right. rewrite E. reflexivity.
Qed.

(* ---------- descriptions ---------- *)
Inductive xdesc :=
| XLeaf (x : fdesc)
| XStruct (nm : name) (cs : list xdesc) (bs : option Z)
| XStatic (nm : name) (cs : list xdesc) (n isz : Z)
| XDyn (nm : name) (cs : list xdesc) (bl : Z) (hl : bool)
| XEop (nm : name) (cs : list xdesc)
(* a multiplexer: bit length and byte order of the switch key, the key ranges of the cases, one description per case
   (its name is the name of the case; a VALUE parameter: the case's content, anything else: a case without content),
   and the default case (the head of ds, if any) *)
| XMux (nm : name) (kbl : Z) (hl : bool) (lims : list (Z * Z)) (cs : list xdesc) (ds : list xdesc).

Fixpoint x_p (t : xdesc) : param :=
  match t with
  | XLeaf x => mkp x
  | XStruct nm cs bs => P nm None None (KValue (DStruct (map x_p cs) bs) None)
  | XStatic nm cs n isz => static_param nm (map x_p cs) n isz
  | XDyn nm cs bl hl => dyn_param nm (map x_p cs) bl hl
  | XEop nm cs => eop_param nm (map x_p cs)
  | XMux nm kbl hl lims cs ds =>
    mux_param nm kbl hl (map (fun lp => mk_case (fst lp) (snd lp)) (combine lims (map x_p cs)))
              (match map x_p ds with d :: _ => Some (mk_case (0, 0) d) | [] => None end)
  end.

Definition x_children (t : xdesc) : list xdesc :=
  match t with
  | XLeaf _ => []
  | XStruct _ cs _ | XStatic _ cs _ _ | XDyn _ cs _ _ | XEop _ cs => cs
  | XMux _ _ _ _ cs ds => cs ++ ds
  end.

Fixpoint x_depth (t : xdesc) : nat :=
  match t with
  | XLeaf _ => 0
  | XStruct _ cs _ | XStatic _ cs _ _ | XDyn _ cs _ _ | XEop _ cs =>
    S (fold_right (fun c a => Nat.max (x_depth c) a) 0%nat cs)
  | XMux _ _ _ _ cs ds =>
    S (Nat.max (fold_right (fun c a => Nat.max (x_depth c) a) 0%nat cs)
               (fold_right (fun c a => Nat.max (x_depth c) a) 0%nat ds))
  end.

(* sane: positive bit lengths and legal types at the leaves, a non-negative item size, a positive count length *)
Fixpoint x_wf (t : xdesc) : Prop :=
  let all := fix all (l : list xdesc) : Prop := match l with [] => True | c :: r => x_wf c /\ all r end in
  match t with
  | XLeaf x => fwf x
  | XStruct _ cs _ => all cs
  | XStatic _ cs _ isz => 0 <= isz /\ all cs
  | XDyn _ cs bl _ => 0 < bl /\ all cs
  | XEop _ cs => all cs
  | XMux _ kbl _ _ cs ds => 0 < kbl /\ all cs /\ all ds
  end.

Lemma x_all_in (cs : list xdesc) :
  (fix all (l : list xdesc) : Prop := match l with [] => True | c :: r => x_wf c /\ all r end) cs ->
  forall c, In c cs -> x_wf c.
Proof.
  induction cs as [|c cs IH]; intros Hall x Hx; [contradiction|]. destruct Hall as [Hc Hr].
  destruct Hx as [<-|Hx]; [exact Hc | now apply IH].
Qed.

Lemma x_wf_children t : x_wf t -> forall c, In c (x_children t) -> x_wf c.
Proof.
  destruct t as [x|nm cs bs|nm cs n isz|nm cs bl hl|nm cs|nm kbl hl lims cs ds]; cbn [x_wf x_children]; intros H c Hc.
  - contradiction.
  - now apply (x_all_in cs).
  - now apply (x_all_in cs (proj2 H)).
  - now apply (x_all_in cs (proj2 H)).
  - now apply (x_all_in cs).
  - destruct H as (_ & Hcs & Hds). apply in_app_or in Hc as [Hc|Hc]; [now apply (x_all_in cs) | now apply (x_all_in ds)].
Qed.

Lemma x_depth_children t c : In c (x_children t) -> (x_depth c < x_depth t)%nat.
Proof.
  assert (G : forall cs, In c cs -> (x_depth c < S (fold_right (fun c a => Nat.max (x_depth c) a) 0%nat cs))%nat).
  { induction cs as [|x cs IH]; intros H; [contradiction|]. cbn [fold_right].
    destruct H as [<-|H]; [lia|]. specialize (IH H). lia. }
  destruct t; cbn [x_children x_depth]; intros H; try contradiction; try (now apply G).
  apply in_app_or in H as [H|H]; [specialize (G cs H) | specialize (G ds H)]; lia.
Qed.

Lemma x_p_shape t : exists nm k, x_p t = P nm None None k.
Proof.
  destruct t as [x|nm cs bs|nm cs n isz|nm cs bl hl|nm cs|nm kbl hl lims cs ds]; cbn [x_p].
  - destruct (mkp_shape x) as (k & E). eexists _, _. exact E.
  - eexists _, _. reflexivity.
  - eexists _, _. reflexivity.
  - eexists _, _. reflexivity.
  - eexists _, _. reflexivity.
  - eexists _, _. reflexivity.
Qed.

Theorem x_ptot : forall d t, (x_depth t <= d)%nat -> x_wf t -> ptot_ge (4 * d + 2) (x_p t).
Proof.
  induction d as [|d IH]; intros t Hd Hw.
  - destruct t; cbn [x_depth] in Hd; try lia. cbn [x_p]. now apply leaf_ptot.
  - assert (Hc : forall c, In c (x_children t) -> forall fd, (4 * d + 2 <= fd)%nat -> ptot fd (x_p c)).
    { intros c Hc fd Hfd. apply (IH c); [pose proof (x_depth_children t c Hc); lia | now apply (x_wf_children t Hw) | exact Hfd]. }
    assert (Hps : forall cs, (forall c, In c cs -> forall fd, (4 * d + 2 <= fd)%nat -> ptot fd (x_p c)) ->
                  forall fd, (4 * d + 2 <= fd)%nat -> forall p, In p (map x_p cs) -> ptot fd p).
    { intros cs H fd Hfd p Hp. apply in_map_iff in Hp as (c & <- & Hc'). now apply H. }
    intros fd Hfd.
    destruct t as [x|nm cs bs|nm cs n isz|nm cs bl hl|nm cs|nm kbl hl lims cs ds]; cbn [x_p x_children] in *.
    + apply (leaf_ptot x Hw). lia.
    + destruct fd as [|[|[|fd]]]; try lia.
      apply value_ptot. apply struct_dtot. apply (Hps cs Hc). lia.
    + destruct fd as [|[|[|[|fd]]]]; try lia. unfold static_param.
      apply field_ptot. intros s Hb H0. apply static_dtot; [|apply Hw|exact Hb|exact H0].
      apply struct_dtot. apply (Hps cs Hc). lia.
    + destruct fd as [|[|[|[|[|fd]]]]]; try lia. unfold dyn_param.
      apply field_ptot. intros s Hb H0. apply dyn_dtot; [|apply Hw|exact Hb|exact H0].
      apply struct_dtot. apply (Hps cs Hc). lia.
    + destruct fd as [|[|[|[|fd]]]]; try lia. unfold eop_param.
      apply field_ptot. intros s Hb H0. apply eop_dtot; [|exact Hb|exact H0].
      apply struct_dtot. apply (Hps cs Hc). lia.
    + destruct fd as [|[|[|fd]]]; try lia. unfold mux_param.
      apply value_ptot. apply mux_dtot; [apply Hw|].
      (* every case (and the default case) stems from a child *)
      assert (Hchild : forall q, In q (map x_p (cs ++ ds)) -> ptot (S (S fd)) q).
      { intros q Hq. apply in_map_iff in Hq as (c0 & <- & Hc0). apply (Hc c0 Hc0). lia. }
      intros c sd Hin Hst.
      assert (Hq : exists q, In q (map x_p (cs ++ ds)) /\ mc_struct c = case_dop q).
      { destruct Hin as [Hin|Hin].
        - apply in_map_iff in Hin as ((lim & q) & <- & Hlq). exists q. split; [|reflexivity].
          apply in_combine_r in Hlq. rewrite map_app. apply in_or_app. now left.
        - destruct (map x_p ds) as [|q qs] eqn:Eds; [discriminate|]. injection Hin as <-. exists q. split; [|reflexivity].
          rewrite map_app. apply in_or_app. right. rewrite Eds. now left. }
      destruct Hq as (q & Hq & Eq). rewrite Eq in Hst.
      assert (Hshape : exists nm' k', q = P nm' None None k').
      { apply in_map_iff in Hq as (c0 & <- & _). apply x_p_shape. }
      destruct Hshape as (nm' & k' & ->).
      apply (case_dop_tot (S fd) nm' k' sd (Hchild _ Hq) Hst).
Qed.

(* ---------- messages ---------- *)
Theorem fields_decode_total ts d m :
  (forall t, In t ts -> (x_depth t <= d)%nat /\ x_wf t) ->
  (4 * d + 3 <= fuel_of (map x_p ts))%nat ->
  dec_outcome_ok (decode_msg (map x_p ts) m).
Proof.
  intros Hts Hfuel. destruct (fuel_of (map x_p ts)) as [|F] eqn:EF; [lia|].
  rewrite (decode_msg_loop _ m F EF).
  destruct (go_tot F (map x_p ts) (mkD m 0 0 0 []) []) as [(kv & s' & G & _)|[G|G]].
  - intros p Hp. apply in_map_iff in Hp as (c & <- & Hc). destruct (Hts c Hc) as [Hd Hw].
    apply (x_ptot d c Hd Hw). lia.
  - cbn. lia.
  - rewrite G. exact I.
  - rewrite G. exact I.
  - rewrite G. exact I.
Qed.

(* a response: id, a counted list of records each holding a fixed list of two words, a record padded to 4 bytes,
   then records to the end of the PDU *)
Example fields_decode_example :
  let u8 nm := mkF nm 8 BUint None true BUint None in
  let u16 nm := mkF nm 16 BUint None true BUint None in
  let ts := [XLeaf (mkF [115] 8 BUint None true BUint (Some (VInt 98)));
             XDyn [100] [XLeaf (u8 [97]); XStatic [110] [XLeaf (u16 [118])] 2 2] 8 true;
             XStruct [112] [XLeaf (u8 [113])] (Some 4);
             XEop [101] [XLeaf (u8 [120]); XLeaf (u16 [121])]] in
  (forall t, In t ts -> (x_depth t <= 2)%nat /\ x_wf t) /\
  (4 * 2 + 3 <= fuel_of (map x_p ts))%nat /\
  (exists v, decode_msg (map x_p ts) [98; 1; 7; 0; 1; 0; 2; 5; 0; 0; 0; 1; 2; 3; 4; 5; 6] = Ok v) /\
  decode_msg (map x_p ts) [98; 1; 7; 0; 1; 0; 2; 5; 0; 0; 0; 1; 2; 3; 4; 5] = Err EDecode /\
  decode_msg (map x_p ts) [98; 2; 7; 0; 1; 0; 2; 5] = Err EDecode.
Proof.
  intros u8 u16 ts. split; [|split; [|split; [|split]]].
  - assert (W : forall nm bl hl c, 0 < bl -> fwf (mkF nm bl BUint None hl BUint c)) by (intros; split; [assumption | reflexivity]).
    intros t [<-|[<-|[<-|[<-|[]]]]]; (split; [cbn; lia|]); cbn [x_wf]; repeat split; try apply W; lia.
  - vm_compute. lia.
  - eexists. vm_compute. reflexivity.
  - vm_compute. reflexivity.
  - vm_compute. reflexivity.
Qed.

(* a request with a multiplexer: id, a MUX with an 8 bit key -- keys 16..31: {a: 8 bit, b: 16 bit}, key 32: no content,
   any other key: the default case {d: 8 bit} --, then records to the end of the PDU; and the same without default case *)
Example mux_decode_example :
  let u8 nm := mkF nm 8 BUint None true BUint None in
  let u16 nm := mkF nm 16 BUint None true BUint None in
  let mk ds := [XLeaf (mkF [115] 8 BUint None true BUint (Some (VInt 34)));
                XMux [109] 8 true [(16, 31); (32, 32)]
                     [XStruct [120] [XLeaf (u8 [97]); XLeaf (u16 [98])] None;
                      XLeaf (mkF [121] 8 BUint None true BUint (Some (VInt 0)))] ds;
                XEop [101] [XLeaf (u8 [122])]] in
  let ts := mk [XStruct [100] [XLeaf (u8 [100])] None] in
  (forall t, In t ts -> (x_depth t <= 2)%nat /\ x_wf t) /\
  (4 * 2 + 3 <= fuel_of (map x_p ts))%nat /\
  (exists v, decode_msg (map x_p ts) [34; 17; 7; 1; 2; 9; 9] = Ok v) /\
  (exists v, decode_msg (map x_p ts) [34; 32; 9] = Ok v) /\
  (exists v, decode_msg (map x_p ts) [34; 200; 5] = Ok v) /\
  decode_msg (map x_p ts) [34; 17; 7; 1] = Err EDecode /\
  decode_msg (map x_p ts) [34] = Err EDecode /\
  decode_msg (map x_p (mk [])) [34; 200; 5] = Err EDecode.
Proof.
  intros u8 u16 mk ts. split; [|split; [|split; [|split; [|split; [|split; [|split]]]]]].
  - assert (W : forall nm bl hl c, 0 < bl -> fwf (mkF nm bl BUint None hl BUint c)) by (intros; split; [assumption | reflexivity]).
    intros t [<-|[<-|[<-|[]]]]; (split; [cbn; lia|]); cbn [x_wf]; repeat split; try apply W; lia.
  - vm_compute. lia.
  - eexists. vm_compute. reflexivity.
  - eexists. vm_compute. reflexivity.
  - eexists. vm_compute. reflexivity.
  - vm_compute. reflexivity.
  - vm_compute. reflexivity.
  - vm_compute. reflexivity.
Qed.
