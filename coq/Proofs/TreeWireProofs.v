(* C02 for structures nested to any depth: the PDU of a message whose parameters are standard-length
   CODED-CONST / VALUE parameters or STRUCTUREs of such, recursively, is the concatenation of the wire
   bytes of the leaves in document order (depth first) -- nothing is inserted between or around the
   structures, no overlap warning is raised. *)
From Coq Require Import ZArith List Bool Lia.
From OV Require Import Base.Bytes Base.Wire Generated Model.Str Model.Codec
     Proofs.BytesProofs Proofs.AtomicProofs Proofs.CodecProps Proofs.FlatProofs Proofs.TreeProofs.
Import ListNotations.
Open Scope Z_scope.

(* encoding p appends exactly the bytes w *)
Definition writes (fe : nat) (p : param) (vin : option value) (w : list Z) : Prop :=
  forall s kv, at_end s -> lookup (pname p) kv = vin ->
    exists s', enc_param fe p kv s = Ok s' /\ at_end s' /\ e_warn s' = e_warn s /\ e_origin s' = e_origin s /\
               e_msg s' = e_msg s ++ w.
Definition writes_ge (n : nat) (p : param) (vin : option value) (w : list Z) : Prop :=
  forall fe, (n <= fe)%nat -> writes fe p vin w.

(* ---------- leaves: a value whose canonical bytes are w ---------- *)
Lemma leaf_writes vv x w :
  sane vv x -> canon vv x w ->
  writes_ge 2 (mkp x) (if is_value x then Some (vv (fname x)) else None) w.
Proof.
  intros Hs Hc fe Hfe s kv Hend Hl. destruct fe as [|[|f]]; try lia.
  rewrite pname_mkp in Hl.
  pose proof (canon_raw_nonneg vv x w Hc) as Hnn.
  destruct Hs as (Hbl & Hwide & Hpt & Hbt & Hcst). destruct Hc as (Hok & Hlen & Hlt & Hv & Hr).
  destruct (emplace_reproduces (set_bit s 0) (vv (fname x)) (f_bl x) (f_bt x) (f_en x) (f_hl x) w _
              (at_end_set_bit s Hend) Hbl Hwide Hok Hlen eq_refl (conj Hnn Hlt) Hr)
    as (s1 & He1 & Hend1 & Hm1 & Hc1 & Hw1 & Ho1).
  cbn [set_bit e_msg e_cur e_warn e_origin] in *.
  exists (set_bit s1 0). split.
  - unfold mkp, is_value in *. destruct (f_const x) as [cv|].
    + subst cv. cbn [enc_param]. unfold is_required. cbn [pkind_of negb orb guard bind].
      unfold vget. fold (fname x). rewrite Hl.
      cbn [is_none orb guard bind opt_or0 enc_dct std_apply_mask std_used_mask].
      rewrite He1. reflexivity.
    + cbn [enc_param]. unfold is_required. cbn [pkind_of]. fold (fname x). rewrite Hl. cbn [negb orb guard bind].
      unfold vget. rewrite Hl. rewrite (not_none_of_instance _ _ Hpt). cbn [negb guard bind opt_or0].
      cbn [enc_dop]. cbn [valid_phys]. rewrite Hpt. cbn [guard bind p2i valid_int dct_bt]. rewrite Hbt. cbn [guard bind enc_dct std_apply_mask std_used_mask].
      rewrite He1. rewrite ?(not_none_of_instance _ _ Hpt). reflexivity.
  - destruct Hend1 as (A & B & C & D).
    repeat split; cbn [set_bit e_bit e_cur e_msg e_used e_warn e_origin]; auto.
Qed.

(* ---------- sequences ---------- *)
Record wmem := mkW { w_p : param; w_in : option value; w_bytes : list Z }.
Definition as_m (x : wmem) : member := mkM (w_p x) (w_in x) VNone.

Lemma seq_writes fe kv n oe : forall ws s i,
  at_end s ->
  (forall x, In x ws -> writes fe (w_p x) (w_in x) (w_bytes x) /\ lookup (pname (w_p x)) kv = w_in x) ->
  exists s',
    enc_go fe kv n oe (map w_p ws) i s = Ok s' /\ at_end s' /\ e_warn s' = e_warn s /\
    e_origin s' = e_origin s /\ e_msg s' = e_msg s ++ concat (map w_bytes ws).
Proof.
  induction ws as [|x ws IH]; intros s i Hend Hg.
  - exists s. cbn [map enc_go concat]. rewrite app_nil_r. auto.
  - destruct (Hg x (or_introl eq_refl)) as (Ha & Hl).
    set (s0 := if i =? n - 1 then set_eop s oe else s).
    assert (Hend0 : at_end s0) by (unfold s0; destruct (i =? n - 1); auto using at_end_set_eop).
    assert (E0 : e_msg s0 = e_msg s /\ e_warn s0 = e_warn s /\ e_origin s0 = e_origin s)
      by (unfold s0; destruct (i =? n - 1); repeat split; reflexivity).
    destruct E0 as (Em0 & Ew0 & Eo0).
    destruct (Ha s0 kv Hend0 Hl) as (s1 & He1 & Hend1 & Hwarn1 & Ho1 & Hm1).
    destruct (IH s1 (i + 1) Hend1 (fun y Hy => Hg y (or_intror Hy))) as (s' & He2 & Hend2 & Hwarn2 & Ho2 & Hm2).
    exists s'. split; [|split; [|split; [|split]]].
    + cbn [map enc_go]. fold s0. rewrite He1. cbn [bind]. exact He2.
    + exact Hend2.
    + congruence.
    + congruence.
    + rewrite Hm2, Hm1, Em0. cbn [map concat]. now rewrite app_assoc.
Qed.

(* ---------- a structure whose members write ---------- *)
Lemma struct_writes n nm ws :
  (forall x, In x ws -> writes_ge n (w_p x) (w_in x) (w_bytes x) /\ no_lenkey (w_p x)) ->
  NoDup (map (fun x => pname (w_p x)) ws) ->
  writes_ge (3 + n) (struct_param nm (map as_m ws)) (Some (VDict (in_dict (map as_m ws)))) (concat (map w_bytes ws)).
Proof.
  intros Hms ND fe Hfe s kv Hend Hl.
  destruct fe as [|[|[|fe]]]; try lia.
  assert (Hn : (n <= fe)%nat) by lia.
  set (ms := map as_m ws) in *.
  cbn [struct_param pname] in Hl.
  set (kv' := in_dict ms).
  set (s0 := set_eop (set_origin (set_bit s 0) (e_cur (set_bit s 0))) false).
  assert (Hend0 : at_end s0) by (destruct Hend as (A & B & C & D); repeat split; auto).
  assert (NDm : NoDup (map m_name ms)).
  { unfold ms. rewrite map_map. exact ND. }
  assert (Hg : forall x, In x ws -> writes fe (w_p x) (w_in x) (w_bytes x) /\ lookup (pname (w_p x)) kv' = w_in x).
  { intros x Hx. split; [apply (proj1 (Hms x Hx)); lia|].
    assert (Hin : In (as_m x) ms) by (unfold ms; now apply in_map).
    exact (lookup_in_dict ms (as_m x) NDm Hin). }
  assert (Hps : map m_p ms = map w_p ws) by (unfold ms; rewrite map_map; reflexivity).
  destruct (seq_writes fe kv' (zlen (map m_p ms)) (e_eop (set_bit s 0)) ws s0 0 Hend0 Hg)
    as (s' & He & Hend' & Hwarn & Ho & Hmsg).
  exists (set_bit (set_origin (set_cur (set_eop s' false) (e_cur (set_eop s' false))) (e_origin (set_bit s 0))) 0).
  split; [|split; [|split; [|split]]].
  - unfold struct_param. cbn [enc_param]. unfold is_required. cbn [pkind_of]. rewrite Hl. cbn [negb orb guard bind].
    unfold vget. rewrite Hl. cbn [is_none negb guard bind opt_or0].
    cbn [enc_dop]. cbn [enc_composite].
    no_own_keys ltac:(intros p Hp; rewrite Hps in Hp; apply in_map_iff in Hp as (x & <- & Hx); apply (proj2 (Hms x Hx))).
    destruct Hend as (Hb & _). cbn [set_bit e_bit Z.eqb guard bind].
    fold kv'. pose proof (known_members ms ms (incl_refl ms)) as Hkm. fold kv' in Hkm. rewrite Hkm. cbn [guard bind].
    unfold enc_go in He. unfold s0 in He. rewrite <- Hps in He. rewrite He. cbn [bind].
    pose proof (keys_none fe (map m_p ms) (set_eop s' false)) as Hkeys. unfold keys_go in Hkeys.
    rewrite Hkeys.
    + cbn [bind]. reflexivity.
    + intros p Hp. rewrite Hps in Hp. apply in_map_iff in Hp as (x & <- & Hx). apply (proj2 (Hms x Hx)).
  - destruct Hend' as (A & B & C & D). repeat split; auto.
  - cbn. rewrite Hwarn. reflexivity.
  - cbn. reflexivity.
  - cbn. rewrite Hmsg. reflexivity.
Qed.

(* ---------- trees ---------- *)
(* a leaf carries its description, its value function and its canonical bytes *)
Inductive wtree := WLeaf (x : fdesc) (vv : name -> value) (w : list Z) | WNode (nm : name) (cs : list wtree).

Fixpoint t_w (t : wtree) : wmem :=
  match t with
  | WLeaf x vv w => mkW (mkp x) (if is_value x then Some (vv (fname x)) else None) w
  | WNode nm cs =>
    let ws := map t_w cs in
    mkW (struct_param nm (map as_m ws)) (Some (VDict (in_dict (map as_m ws)))) (concat (map w_bytes ws))
  end.

(* the bytes of a tree are the bytes of its leaves, depth first *)
Fixpoint leaves (t : wtree) : list (list Z) :=
  match t with
  | WLeaf _ _ w => [w]
  | WNode _ cs => flat_map leaves cs
  end.

Fixpoint wdepth (t : wtree) : nat :=
  match t with
  | WLeaf _ _ _ => 0
  | WNode _ cs => S (fold_right (fun c a => Nat.max (wdepth c) a) 0%nat cs)
  end.

Fixpoint wwf (t : wtree) : Prop :=
  match t with
  | WLeaf x vv w => sane vv x /\ canon vv x w
  | WNode nm cs =>
    NoDup (map (fun c => pname (w_p (t_w c))) cs) /\
    (fix all (l : list wtree) : Prop := match l with [] => True | c :: r => wwf c /\ all r end) cs
  end.

Lemma wwf_children nm cs : wwf (WNode nm cs) ->
  NoDup (map (fun x => pname (w_p x)) (map t_w cs)) /\ forall c, In c cs -> wwf c.
Proof.
  cbn [wwf]. intros [ND Hall]. split; [now rewrite map_map|].
  induction cs as [|c cs IH]; intros x Hx; [contradiction|]. destruct Hall as [Hc Hr].
  destruct Hx as [<-|Hx]; [exact Hc|]. apply IH; auto. now inversion ND.
Qed.

Lemma wdepth_children nm cs c : In c cs -> (wdepth c < wdepth (WNode nm cs))%nat.
Proof.
  cbn [wdepth]. induction cs as [|x cs IH]; intros H; [contradiction|]. cbn [fold_right].
  destruct H as [<-|H]; [lia|]. specialize (IH H). lia.
Qed.

Lemma w_no_lenkey t : no_lenkey (w_p (t_w t)).
Proof. destruct t as [x vv w|nm cs]; cbn [t_w w_p]; [unfold mkp, no_lenkey; destruct (f_const x); exact I | exact I]. Qed.

Lemma bytes_are_leaves : forall d t, (wdepth t <= d)%nat -> w_bytes (t_w t) = concat (leaves t).
Proof.
  induction d as [|d IH]; intros t Hd; destruct t as [x vv w|nm cs]; cbn [t_w w_bytes leaves concat];
    try (now rewrite app_nil_r); [cbn [wdepth] in Hd; lia|].
  assert (Hc : forall c, In c cs -> w_bytes (t_w c) = concat (leaves c)).
  { intros c Hin. apply IH. pose proof (wdepth_children nm cs c Hin). lia. }
  clear Hd IH. induction cs as [|c cs IHc]; [reflexivity|].
  cbn [map concat flat_map]. rewrite concat_app, (Hc c (or_introl eq_refl)). f_equal.
  apply IHc. intros y Hy. apply Hc. now right.
Qed.

Theorem tree_writes : forall d t,
  (wdepth t <= d)%nat -> wwf t ->
  writes_ge (3 * d + 2) (w_p (t_w t)) (w_in (t_w t)) (w_bytes (t_w t)).
Proof.
  induction d as [|d IH]; intros t Hd Hwf.
  - destruct t as [x vv w|nm cs]; [|cbn [wdepth] in Hd; lia].
    cbn [t_w w_p w_in w_bytes]. destruct Hwf as [Hs Hc]. now apply leaf_writes.
  - destruct t as [x vv w|nm cs].
    + cbn [t_w w_p w_in w_bytes]. destruct Hwf as [Hs Hc]. intros fe Hfe. apply (leaf_writes vv x w Hs Hc). lia.
    + destruct (wwf_children nm cs Hwf) as [ND Hc].
      cbn [t_w w_p w_in w_bytes].
      replace (3 * S d + 2)%nat with (3 + (3 * d + 2))%nat by lia.
      apply struct_writes; [|exact ND].
      intros x Hx. apply in_map_iff in Hx as (c & <- & Hin). split; [|apply w_no_lenkey].
      apply IH; [|now apply Hc]. pose proof (wdepth_children nm cs c Hin). lia.
Qed.

(* ---------- messages ---------- *)
Theorem tree_wire_format ts d :
  (forall t, In t ts -> (wdepth t <= d)%nat /\ wwf t) ->
  NoDup (map (fun t => pname (w_p (t_w t))) ts) ->
  let ws := map t_w ts in
  let ps := map w_p ws in
  (3 * d + 3 <= fuel_of ps)%nat ->
  encode_msg ps None (VDict (in_dict (map as_m ws))) = Ok (concat (flat_map leaves ts), false).
Proof.
  intros Hts ND ws ps Hfuel.
  set (ms := map as_m ws).
  assert (NDm : NoDup (map m_name ms)).
  { unfold ms, ws. rewrite !map_map. exact ND. }
  assert (Hps : map m_p ms = ps) by (unfold ms, ps; rewrite map_map; reflexivity).
  destruct (fuel_of ps) as [|F] eqn:EF; [lia|].
  set (kv := in_dict ms).
  set (s0 := set_eop (set_origin (estate0 None) (e_cur (estate0 None))) false).
  assert (Hend0 : at_end s0) by (repeat split; reflexivity).
  assert (Hg : forall x, In x ws -> writes F (w_p x) (w_in x) (w_bytes x) /\ lookup (pname (w_p x)) kv = w_in x).
  { intros x Hx. split.
    - unfold ws in Hx. apply in_map_iff in Hx as (t & <- & Ht). destruct (Hts t Ht) as [Hd Hw].
      apply (tree_writes d t Hd Hw). lia.
    - assert (Hin : In (as_m x) ms) by (unfold ms; now apply in_map).
      exact (lookup_in_dict ms (as_m x) NDm Hin). }
  destruct (seq_writes F kv (zlen ps) (e_eop (estate0 None)) ws s0 0 Hend0 Hg) as (s' & He & Hend' & Hwarn & Ho & Hm).
  assert (Hbytes : concat (map w_bytes ws) = concat (flat_map leaves ts)).
  { unfold ws. clear -Hts. induction ts as [|t ts IH]; [reflexivity|].
    cbn [map concat flat_map]. rewrite concat_app. f_equal.
    - apply (bytes_are_leaves d). apply Hts. now left.
    - apply IH. intros y Hy. apply Hts. now right. }
  unfold encode_msg. rewrite EF. cbn [enc_composite].
  no_own_keys ltac:(intros p Hp; unfold ps, ws in Hp; rewrite map_map in Hp; apply in_map_iff in Hp as (t & <- & Ht);
                    apply w_no_lenkey).
  cbn [estate0 e_bit Z.eqb guard bind].
  pose proof (known_members ms ms (incl_refl ms)) as Hkm. rewrite Hps in Hkm. fold kv in Hkm. rewrite Hkm.
  cbn [guard bind].
  unfold enc_go in He. fold ps in He. unfold s0 in He. rewrite He. cbn [bind].
  pose proof (keys_none F ps (set_eop s' false)) as Hkeys. unfold keys_go in Hkeys.
  rewrite Hkeys.
  - cbn [bind e_msg e_warn set_origin set_cur set_eop]. rewrite Hwarn, Hm, Hbytes. reflexivity.
  - intros p Hp. unfold ps, ws in Hp. rewrite map_map in Hp. apply in_map_iff in Hp as (t & <- & Ht). apply w_no_lenkey.
Qed.

(* a leaf built from a raw value: its bytes are the zero-padded big-endian (byte-swapped for little-endian
   numeric objects) representation *)
Definition raw_leaf (x : fdesc) (vv : name -> value) (raw : Z) : wtree := WLeaf x vv (wire_bytes x raw).

Lemma raw_leaf_wf x vv raw :
  sane vv x -> 0 <= raw < 2 ^ f_bl x ->
  raw_of (vv (fname x)) (f_bl x) (f_bt x) (f_en x) (f_hl x) = Ok raw ->
  value_of_raw raw (f_bl x) (f_bt x) (f_en x) (f_hl x) = Ok (vv (fname x)) ->
  wwf (raw_leaf x vv raw).
Proof. intros Hs Hr Ho Hv. split; [exact Hs|]. apply wire_bytes_canon; auto. apply Hs. Qed.

(* service id, a structure of a value and a structure (a 12 bit little-endian value and a byte), a trailing value *)
Example tree_wire_example :
  let u8 nm := mkF nm 8 BUint None true BUint None in
  let vv (z : Z) := fun _ : name => VInt z in
  let ts := [raw_leaf (mkF [115] 8 BUint None true BUint (Some (VInt 34))) (vv 34) 34;
             WNode [111] [raw_leaf (u8 [97]) (vv 1) 1;
                          WNode [105] [raw_leaf (mkF [98] 12 BUint None false BUint None) (vv 2748) 2748;
                                       raw_leaf (u8 [99]) (vv 3) 3]];
             raw_leaf (u8 [122]) (vv 255) 255] in
  (forall t, In t ts -> (wdepth t <= 2)%nat /\ wwf t) /\
  NoDup (map (fun t => pname (w_p (t_w t))) ts) /\
  (3 * 2 + 3 <= fuel_of (map w_p (map t_w ts)))%nat /\
  concat (flat_map leaves ts) = [34; 1; 188; 10; 3; 255].
Proof.
  intros u8 vv ts.
  assert (L : forall nm bl hl cst z, 0 < bl <= 64 -> 0 <= z < 2 ^ bl -> (match cst with Some c => c = VInt z | None => True end) ->
                                    wwf (raw_leaf (mkF nm bl BUint None hl BUint cst) (vv z) z)).
  { intros nm bl hl cst z Hbl Hz Hc. apply raw_leaf_wf; cbn [f_bl f_bt f_en f_hl f_pt f_const fname f_name].
    - unfold sane. cbn [f_bl f_bt f_pt f_const fname f_name is_numeric andb].
      split; [lia|]. split; [apply Z.ltb_ge; lia|]. split; [reflexivity|]. split; [reflexivity|].
      destruct cst as [c|]; [symmetry; exact Hc | exact I].
    - exact Hz.
    - apply raw_of_uint; lia.
    - destruct (uint_raw_roundtrip z bl None hl z ltac:(lia) (or_introl eq_refl) (raw_of_uint z bl hl ltac:(lia) Hz)) as [_ Hv].
      exact Hv. }
  split; [|split; [|split]].
  - intros t [<-|[<-|[<-|[]]]].
    + split; [cbn; lia | apply L; cbn; try lia; reflexivity].
    + split; [cbn; lia|]. cbn [wwf]. split.
      * repeat constructor; cbn; intuition discriminate.
      * split; [apply L; cbn; try lia; exact I|]. split; [|exact I]. split.
        -- repeat constructor; cbn; intuition discriminate.
        -- split; [apply L; cbn; try lia; exact I|]. split; [apply L; cbn; try lia; exact I | exact I].
    + split; [cbn; lia | apply L; cbn; try lia; exact I].
  - repeat constructor; cbn; intuition discriminate.
  - vm_compute. lia.
  - vm_compute. reflexivity.
Qed.

(* ====================================================================================== *)
(* C08 for nested structures: the static bit length is 8 x the number of bytes of the leaves, *)
(* which is the length of every encoding                                                   *)
(* ====================================================================================== *)
Fixpoint tbytes (t : wtree) : Z :=
  match t with
  | WLeaf x _ _ => fbytes x
  | WNode _ cs => fold_right (fun c a => tbytes c + a) 0 cs
  end.

Fixpoint tpos (t : wtree) : Prop :=
  match t with
  | WLeaf x _ _ => 0 < f_bl x
  | WNode _ cs => (fix all (l : list wtree) : Prop := match l with [] => True | c :: r => tpos c /\ all r end) cs
  end.

Lemma tpos_children nm cs : tpos (WNode nm cs) -> forall c, In c cs -> tpos c.
Proof.
  cbn [tpos]. induction cs as [|c cs IH]; intros Hall x Hx; [contradiction|]. destruct Hall as [Hc Hr].
  destruct Hx as [<-|Hx]; [exact Hc | now apply IH].
Qed.

Lemma tbytes_nonneg : forall d t, (wdepth t <= d)%nat -> tpos t -> 0 <= tbytes t.
Proof.
  induction d as [|d IH]; intros t Hd Hp; destruct t as [x vv w|nm cs]; cbn [tbytes].
  - unfold fbytes, nbytes_of. cbn [tpos] in Hp. apply Z.div_pos; lia.
  - cbn [wdepth] in Hd. lia.
  - unfold fbytes, nbytes_of. cbn [tpos] in Hp. apply Z.div_pos; lia.
  - assert (Hc : forall c, In c cs -> 0 <= tbytes c).
    { intros c Hin. apply IH; [pose proof (wdepth_children nm cs c Hin); lia | now apply (tpos_children nm cs Hp)]. }
    clear -Hc. induction cs as [|c cs IHc]; cbn [fold_right]; [lia|].
    pose proof (Hc c (or_introl eq_refl)). assert (0 <= fold_right (fun c0 a => tbytes c0 + a) 0 cs) by (apply IHc; intros y Hy; apply Hc; now right). lia.
Qed.

(* the bit length which the static-length computation sees for the parameter of a tree *)
Definition kind_bits (f : nat) (p : param) : option Z :=
  match pkind_of p with
  | KCoded dc _ | KNrc dc _ => static_bits_dct dc
  | KValue d' _ | KPhysConst d' _ | KLenKey d' => static_bits f d'
  | KReserved bl => Some bl
  | KMatchReq _ len => Some (8 * len)
  end.

Lemma sb_go_members f : forall ps c,
  0 <= c ->
  (forall p, In p ps -> exists nm k pbl, p = P nm None None k /\ kind_bits f p = Some pbl /\ 0 <= (0 + pbl + 7) / 8) ->
  exists total, sb_go f ps c c = Some (8 * (c + total)) /\ 0 <= total /\
                total = fold_right (fun p a => match kind_bits f p with Some pbl => (0 + pbl + 7) / 8 | None => 0 end + a) 0 ps.
Proof.
  induction ps as [|p ps IH]; intros c Hc Hp; cbn [sb_go fold_right].
  - exists 0. split; [f_equal; lia | split; [lia | reflexivity]].
  - destruct (Hp p (or_introl eq_refl)) as (nm & k & pbl & -> & Hk & Hn).
    unfold kind_bits in Hk. cbn [pkind_of] in Hk. rewrite Hk. cbv zeta.
    replace (Z.max c (c + (0 + pbl + 7) / 8)) with (c + (0 + pbl + 7) / 8) by lia.
    destruct (IH (c + (0 + pbl + 7) / 8) ltac:(lia) (fun q Hq => Hp q (or_intror Hq))) as (t & E & Ht & Et).
    exists ((0 + pbl + 7) / 8 + t). split; [rewrite E; f_equal; lia|]. split; [lia|].
    unfold kind_bits at 1. cbn [pkind_of]. rewrite Hk. rewrite Et. reflexivity.
Qed.

Lemma mkp_shape x : exists k, mkp x = P (f_name x) None None k.
Proof. unfold mkp. destruct (f_const x); eexists; reflexivity. Qed.

Theorem tree_static_bits : forall d t,
  (wdepth t <= d)%nat -> tpos t -> forall f, (d + 1 <= f)%nat ->
  kind_bits f (w_p (t_w t)) = Some (match t with WLeaf x _ _ => f_bl x | WNode _ _ => 8 * tbytes t end) /\
  (0 + (match t with WLeaf x _ _ => f_bl x | WNode _ _ => 8 * tbytes t end) + 7) / 8 = tbytes t.
Proof.
  induction d as [|d IH]; intros t Hd Hp f Hf.
  - destruct t as [x vv w|nm cs]; [|cbn [wdepth] in Hd; lia].
    destruct f as [|f]; [lia|]. cbn [t_w w_p tbytes]. split.
    + unfold kind_bits, mkp. destruct (f_const x); reflexivity.
    + unfold fbytes, nbytes_of. f_equal. lia.
  - destruct t as [x vv w|nm cs].
    + destruct f as [|f]; [lia|]. cbn [t_w w_p tbytes]. split.
      * unfold kind_bits, mkp. destruct (f_const x); reflexivity.
      * unfold fbytes, nbytes_of. f_equal. lia.
    + destruct f as [|f]; [lia|].
      assert (Hc : forall c, In c cs -> (wdepth c <= d)%nat /\ tpos c).
      { intros c Hin. split; [pose proof (wdepth_children nm cs c Hin); lia | now apply (tpos_children nm cs Hp)]. }
      cbn [t_w w_p]. unfold kind_bits, struct_param. cbn [pkind_of].
      assert (Hps : map m_p (map as_m (map t_w cs)) = map w_p (map t_w cs)) by (rewrite !map_map; reflexivity).
      rewrite Hps.
      assert (S0 : static_bits (S f) (DStruct (map w_p (map t_w cs)) None) = sb_go f (map w_p (map t_w cs)) 0 0) by reflexivity.
      rewrite S0.
      destruct (sb_go_members f (map w_p (map t_w cs)) 0 ltac:(lia)) as (total & E & Ht & Et).
      { intros p Hin. rewrite map_map in Hin. apply in_map_iff in Hin as (c & <- & Hc').
        destruct (Hc c Hc') as [Hdc Hpc]. destruct (IH c Hdc Hpc f ltac:(lia)) as [K B].
        pose proof (tbytes_nonneg d c Hdc Hpc) as Hnn.
        destruct c as [x vv w|nm' cs']; cbn [t_w w_p].
        - destruct (mkp_shape x) as (k & Ek). exists (f_name x), k, (f_bl x).
          split; [exact Ek|]. split; [exact K | rewrite B; exact Hnn].
        - unfold struct_param. eexists _, _, _. split; [reflexivity|]. split; [exact K | rewrite B; exact Hnn]. }
      assert (Etot : total = tbytes (WNode nm cs)).
      { rewrite Et. cbn [tbytes]. rewrite map_map. clear -Hc IH Hf.
        induction cs as [|c cs IHc]; cbn [map fold_right]; [reflexivity|].
        destruct (Hc c (or_introl eq_refl)) as [Hdc Hpc]. destruct (IH c Hdc Hpc f ltac:(lia)) as [K B].
        rewrite K, B. f_equal. apply IHc. intros y Hy. apply Hc. now right. }
      rewrite E. rewrite Etot. split; [f_equal; lia|].
      replace (0 + 8 * tbytes (WNode nm cs) + 7) with (7 + tbytes (WNode nm cs) * 8) by lia.
      rewrite Z.div_add by lia. reflexivity.
Qed.

(* the static bit length of a message of trees *)
Theorem tree_static_length ts d :
  (forall t, In t ts -> (wdepth t <= d)%nat /\ tpos t) ->
  let ps := map w_p (map t_w ts) in
  (d + 2 <= fuel_of ps)%nat ->
  static_bits_msg ps = Some (8 * fold_right (fun t a => tbytes t + a) 0 ts).
Proof.
  intros Hts ps Hfuel. unfold static_bits_msg.
  destruct (fuel_of ps) as [|F] eqn:EF; [lia|].
  assert (S0 : static_bits (S F) (DStruct ps None) = sb_go F ps 0 0) by reflexivity.
  rewrite S0.
  destruct (sb_go_members F ps 0 ltac:(lia)) as (total & E & Ht & Et).
  { intros p Hin. unfold ps in Hin. rewrite map_map in Hin. apply in_map_iff in Hin as (c & <- & Hc').
    destruct (Hts c Hc') as [Hdc Hpc]. destruct (tree_static_bits d c Hdc Hpc F ltac:(lia)) as [K B].
    pose proof (tbytes_nonneg d c Hdc Hpc) as Hnn.
    destruct c as [x vv w|nm' cs']; cbn [t_w w_p].
    - destruct (mkp_shape x) as (k & Ek). exists (f_name x), k, (f_bl x).
      split; [exact Ek|]. split; [exact K | rewrite B; exact Hnn].
    - unfold struct_param. eexists _, _, _. split; [reflexivity|]. split; [exact K | rewrite B; exact Hnn]. }
  rewrite E. f_equal. f_equal. rewrite Et. unfold ps. rewrite map_map. clear -Hts Hfuel EF.
  assert (HF : (d + 1 <= F)%nat) by lia. clear Hfuel EF.
  induction ts as [|c ts IHc]; cbn [map fold_right]; [reflexivity|].
  destruct (Hts c (or_introl eq_refl)) as [Hdc Hpc]. destruct (tree_static_bits d c Hdc Hpc F HF) as [K B].
  rewrite K, B. cbn [Z.add]. f_equal. apply IHc. intros y Hy. apply Hts. now right.
Qed.

(* the bytes of a well-formed tree are as many as its leaves say *)
Lemma leaves_length : forall d t, (wdepth t <= d)%nat -> wwf t -> blen (concat (leaves t)) = tbytes t /\ tpos t.
Proof.
  induction d as [|d IH]; intros t Hd Hw; destruct t as [x vv w|nm cs]; cbn [leaves tbytes tpos concat].
  - destruct Hw as [Hs (Hok & Hl & _)]. rewrite app_nil_r. split; [exact Hl | apply Hs].
  - cbn [wdepth] in Hd. lia.
  - destruct Hw as [Hs (Hok & Hl & _)]. rewrite app_nil_r. split; [exact Hl | apply Hs].
  - destruct (wwf_children nm cs Hw) as [_ Hc].
    assert (Hcc : forall c, In c cs -> blen (concat (leaves c)) = tbytes c /\ tpos c).
    { intros c Hin. apply IH; [pose proof (wdepth_children nm cs c Hin); lia | now apply Hc]. }
    clear -Hcc. induction cs as [|c cs IHc]; cbn [flat_map concat fold_right]; [split; [reflexivity | exact I]|].
    destruct (Hcc c (or_introl eq_refl)) as [L P]. destruct (IHc (fun y Hy => Hcc y (or_intror Hy))) as [L' P'].
    rewrite concat_app, blen_app, L, L'. split; [reflexivity | split; assumption].
Qed.

(* every encoding of such a message has exactly the statically described length *)
Corollary tree_length_is_static ts d :
  (forall t, In t ts -> (wdepth t <= d)%nat /\ wwf t) ->
  NoDup (map (fun t => pname (w_p (t_w t))) ts) ->
  let ws := map t_w ts in
  let ps := map w_p ws in
  (3 * d + 3 <= fuel_of ps)%nat ->
  exists msg, encode_msg ps None (VDict (in_dict (map as_m ws))) = Ok (msg, false) /\
              static_bits_msg ps = Some (8 * blen msg).
Proof.
  intros Hts ND ws ps Hfuel.
  exists (concat (flat_map leaves ts)). split; [now apply (tree_wire_format ts d)|].
  assert (Hp : forall t, In t ts -> (wdepth t <= d)%nat /\ tpos t).
  { intros t Ht. destruct (Hts t Ht) as [Hd Hw]. split; [exact Hd | exact (proj2 (leaves_length d t Hd Hw))]. }
  unfold ps, ws. rewrite (tree_static_length ts d Hp) by (fold ws; fold ps; lia).
  f_equal. f_equal. clear -Hts.
  induction ts as [|t ts IH]; cbn [flat_map concat fold_right]; [reflexivity|].
  destruct (Hts t (or_introl eq_refl)) as [Hd Hw].
  rewrite concat_app, blen_app, (proj1 (leaves_length d t Hd Hw)). f_equal. apply IH. intros y Hy. apply Hts. now right.
Qed.

(* ====================================================================================== *)
(* C03 for nested structures: a PDU made of canonical leaves decodes to values whose       *)
(* encoding is the PDU again                                                               *)
(* ====================================================================================== *)
Fixpoint to_f (t : wtree) : ftree :=
  match t with
  | WLeaf x vv _ => FLeaf x (vv (fname x))
  | WNode nm cs => FNode nm (map to_f cs)
  end.

Lemma in_dict_ext : forall (A B : list member),
  map m_p A = map m_p B -> map m_in A = map m_in B -> in_dict A = in_dict B.
Proof.
  induction A as [|a A IH]; intros [|b B] Hp Hi; try discriminate; [reflexivity|].
  cbn [map] in Hp, Hi. injection Hp as Hp1 Hp2. injection Hi as Hi1 Hi2.
  cbn [in_dict flat_map]. unfold m_name. rewrite Hp1, Hi1. f_equal. now apply IH.
Qed.

Lemma to_f_same : forall d t, (wdepth t <= d)%nat ->
  m_p (t_member (to_f t)) = w_p (t_w t) /\ m_in (t_member (to_f t)) = w_in (t_w t) /\ depth (to_f t) = wdepth t.
Proof.
  induction d as [|d IH]; intros t Hd; destruct t as [x vv w|nm cs];
    try (cbn [to_f t_member t_w m_p m_in w_p w_in depth wdepth]; repeat split; reflexivity);
    [cbn [wdepth] in Hd; lia|].
  assert (Hc : forall c, In c cs -> m_p (t_member (to_f c)) = w_p (t_w c) /\ m_in (t_member (to_f c)) = w_in (t_w c) /\
                                    depth (to_f c) = wdepth c).
  { intros c Hin. apply IH. pose proof (wdepth_children nm cs c Hin). lia. }
  assert (Ep : map m_p (map t_member (map to_f cs)) = map m_p (map as_m (map t_w cs))).
  { rewrite !map_map. apply map_ext_in. intros c Hin. cbn [as_m m_p]. apply (Hc c Hin). }
  assert (Ei : map m_in (map t_member (map to_f cs)) = map m_in (map as_m (map t_w cs))).
  { rewrite !map_map. apply map_ext_in. intros c Hin. cbn [as_m m_in]. apply (Hc c Hin). }
  cbn [to_f t_member t_w m_p m_in w_p w_in depth wdepth]. split; [|split].
  - unfold struct_param. now rewrite Ep.
  - f_equal. f_equal. now apply in_dict_ext.
  - f_equal. clear -Hc. induction cs as [|c cs IHc]; cbn [map fold_right]; [reflexivity|].
    rewrite (proj2 (proj2 (Hc c (or_introl eq_refl)))). f_equal. apply IHc. intros y Hy. apply Hc. now right.
Qed.

Lemma to_f_wf : forall d t, (wdepth t <= d)%nat -> wwf t -> wf (to_f t).
Proof.
  induction d as [|d IH]; intros t Hd Hw; destruct t as [x vv w|nm cs]; cbn [to_f wf].
  - destruct Hw as [Hs Hc]. now apply (canon_fits vv x w).
  - cbn [wdepth] in Hd. lia.
  - destruct Hw as [Hs Hc]. now apply (canon_fits vv x w).
  - destruct (wwf_children nm cs Hw) as [ND Hc].
    assert (Hcc : forall c, In c cs -> (wdepth c <= d)%nat).
    { intros c Hin. pose proof (wdepth_children nm cs c Hin). lia. }
    split.
    + rewrite map_map. rewrite map_map in ND.
      replace (map (fun x => m_name (t_member (to_f x))) cs) with (map (fun x => pname (w_p (t_w x))) cs); [exact ND|].
      apply map_ext_in. intros c Hin. unfold m_name. now rewrite (proj1 (to_f_same d c (Hcc c Hin))).
    + assert (Hall : forall c, In c cs -> wf (to_f c)).
      { intros c Hin. apply IH; [now apply Hcc | now apply Hc]. }
      clear -Hall. induction cs as [|c cs IHc]; cbn [map]; [exact I|].
      split; [apply Hall; now left|]. apply IHc. intros y Hy. apply Hall. now right.
Qed.

Theorem tree_reencode ts d :
  (forall t, In t ts -> (wdepth t <= d)%nat /\ wwf t) ->
  NoDup (map (fun t => pname (w_p (t_w t))) ts) ->
  let ws := map t_w ts in
  let ps := map w_p ws in
  let msg := concat (flat_map leaves ts) in
  (3 * d + 3 <= fuel_of ps)%nat ->
  decode_msg ps msg = Ok (VDict (out_dict (map t_member (map to_f ts)))) /\
  encode_msg ps None (VDict (in_dict (map as_m ws))) = Ok (msg, false).
Proof.
  intros Hts ND ws ps msg Hfuel.
  pose proof (tree_wire_format ts d Hts ND Hfuel) as Enc. fold ws in Enc. fold ps in Enc. fold msg in Enc.
  split; [|exact Enc].
  set (fs := map to_f ts).
  assert (Hsame : forall t, In t ts -> m_p (t_member (to_f t)) = w_p (t_w t) /\ m_in (t_member (to_f t)) = w_in (t_w t) /\
                                       depth (to_f t) = wdepth t).
  { intros t Ht. apply (to_f_same d). apply Hts, Ht. }
  assert (Eps : map m_p (map t_member fs) = ps).
  { unfold fs, ps, ws. rewrite !map_map. apply map_ext_in. intros t Ht. apply (Hsame t Ht). }
  assert (Ein : in_dict (map t_member fs) = in_dict (map as_m ws)).
  { apply in_dict_ext.
    - rewrite Eps. unfold ps, ws. rewrite !map_map. reflexivity.
    - unfold fs, ws. rewrite !map_map. apply map_ext_in. intros t Ht. cbn [as_m m_in]. apply (Hsame t Ht). }
  assert (Hf : forall t, In t fs -> (depth t <= d)%nat /\ wf t).
  { intros t Ht. unfold fs in Ht. apply in_map_iff in Ht as (t0 & <- & Ht0). destruct (Hts t0 Ht0) as [Hd Hw].
    split; [rewrite (proj2 (proj2 (Hsame t0 Ht0))); exact Hd | now apply (to_f_wf d)]. }
  assert (NDf : NoDup (map (fun t => m_name (t_member t)) fs)).
  { unfold fs. rewrite map_map.
    replace (map (fun x => m_name (t_member (to_f x))) ts) with (map (fun t => pname (w_p (t_w t))) ts); [exact ND|].
    apply map_ext_in. intros t Ht. unfold m_name. now rewrite (proj1 (Hsame t Ht)). }
  destruct (tree_message_roundtrip fs d Hf NDf) as (m0 & E0 & D0).
  { rewrite Eps. exact Hfuel. }
  rewrite Eps, Ein in E0. rewrite Eps in D0.
  rewrite Enc in E0. injection E0 as <-. exact D0.
Qed.
