(* The strict-mode discipline: every deviation between strict and lenient mode goes
   through `odxraise` (raise when strict, log and continue otherwise).  Programs are
   trees of such soft checks, hard raises and results; since they are produced by
   arbitrary Gallina functions of the inputs this covers any code structured that way. *)
From Coq Require Import List Bool.
From OV Require Import Model.Codec.
Import ListNotations.

Inductive prog (A : Type) : Type :=
| Ret (a : A)
| Soft (e : err) (k : prog A)      (* odxraise(msg, E): strict -> raise E; lenient -> log, continue *)
| Hard (e : err).                  (* raise E *)
Arguments Ret {A} a.
Arguments Soft {A} e k.
Arguments Hard {A} e.

Fixpoint run {A} (strict : bool) (p : prog A) : res A * nat (* number of log entries *) :=
  match p with
  | Ret a => (Ok a, 0)
  | Soft e k => if strict then (Err e, 0) else let (r, n) := run strict k in (r, S n)
  | Hard e => (Err e, 0)
  end.

Fixpoint pbind {A B} (p : prog A) (f : A -> prog B) : prog B :=
  match p with
  | Ret a => f a
  | Soft e k => Soft e (pbind k f)
  | Hard e => Hard e
  end.

(* whenever an operation succeeds in strict mode, lenient mode returns the identical
   result and logs nothing *)
Lemma lenient_conservative {A} (p : prog A) a :
  fst (run true p) = Ok a -> run false p = (Ok a, 0).
Proof.
  induction p as [x|e k IH|e]; simpl; intros H.
  - congruence.
  - discriminate.
  - discriminate.
Qed.

(* a problem reported in strict mode is downgraded (logged) in lenient mode *)
Lemma strict_error_is_logged {A} (p : prog A) e :
  fst (run true p) = Err e ->
  (exists k, p = Hard e \/ (exists q, p = Soft e q /\ snd (run false p) = S k)).
Proof.
  destruct p as [x|e' k|e']; simpl; intros H; try discriminate.
  - injection H as <-. destruct (run false k) as [r n] eqn:E. exists n. right. exists k.
    split; [reflexivity|]. reflexivity.
  - injection H as <-. exists 0. now left.
Qed.

(* sequencing preserves the law *)
Lemma run_bind_strict {A B} (p : prog A) (f : A -> prog B) :
  fst (run true (pbind p f)) =
  match fst (run true p) with Ok a => fst (run true (f a)) | Err e => Err e end.
Proof. induction p; simpl; auto. Qed.

(* the mode is read at each call: a history of mode switches and calls behaves like
   running every call under the mode current at that step *)
Inductive step (A : Type) := SetMode (b : bool) | Call (p : prog A).
Arguments SetMode {A} b.
Arguments Call {A} p.

Fixpoint run_history {A} (mode : bool) (h : list (step A)) : list (res A) :=
  match h with
  | [] => []
  | SetMode b :: r => run_history b r
  | Call p :: r => fst (run mode p) :: run_history mode r
  end.

Lemma history_restores {A} (p : prog A) (h : list (step A)) m :
  run_history m (Call p :: SetMode false :: Call p :: SetMode true :: Call p :: h)
  = fst (run m p) :: fst (run false p) :: fst (run true p) :: run_history true h.
Proof. reflexivity. Qed.
