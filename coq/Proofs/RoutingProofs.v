(* C09: which NOT-INHERITED list applies to which list of the data dictionary.
   The table [ddd_routing] is regenerated from odxtools/diaglayers/hierarchyelement.py on every run
   (harness/translate.py); this file states what ODX prescribes and checks the table against it. *)
From Coq Require Import ZArith List Bool String Ascii.
From OV Require Import Base.Bytes Generated.
Import ListNotations.
Open Scope Z_scope.

Definition zs (s : string) : list Z := map (fun a => Z.of_N (N_of_ascii a)) (list_ascii_of_string s).

(* the lists of a DIAG-DATA-DICTIONARY-SPEC whose members are DOP-BASE objects *)
Definition dop_base_lists : list (list Z) :=
  map zs ["data_object_props"; "structures"; "dtc_dops"; "static_fields"; "end_of_pdu_fields";
          "dynamic_endmarker_fields"; "dynamic_length_fields"; "env_data_descs"; "env_datas"; "muxs"]%string.

(* NOT-INHERITED-DOPS names DOP-BASE objects, NOT-INHERITED-TABLES names tables *)
Definition routing_spec : list (list Z * list Z) :=
  map (fun n => (n, zs "not_inherited_dops")) dop_base_lists ++ [(zs "tables", zs "not_inherited_tables")].

Definition pair_eqb (a b : list Z * list Z) : bool := bytes_eqb (fst a) (fst b) && bytes_eqb (snd a) (snd b).
Definition routing_ok (r : list (list Z * list Z)) : bool :=
  forallb (fun e => existsb (pair_eqb e) r) routing_spec &&
  forallb (fun e => existsb (pair_eqb e) routing_spec) r.

Lemma exclusion_lists_routed : routing_ok ddd_routing = true.
Proof. vm_compute. reflexivity. Qed.

(* the check is not vacuous: routing a DOP-BASE list through the table exclusions is rejected *)
Lemma routing_ok_rejects_misrouting :
  routing_ok (map (fun e => if bytes_eqb (fst e) (zs "muxs") then (fst e, zs "not_inherited_tables") else e) routing_spec) = false.
Proof. vm_compute. reflexivity. Qed.
