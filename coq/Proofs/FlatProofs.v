(* Composite level, first fragment: messages which are a sequence of unsigned integer parameters
   (any bit length 1..64, either byte order, implicit positions).  For these the model's
   Request.encode followed by Request.decode returns the values -- proved for the real entry
   points encode_msg / decode_msg of Model/Codec.v, for every number of parameters. *)
From Coq Require Import ZArith List Bool Lia.
From OV Require Import Base.Bytes Base.Wire Model.Str Model.Codec Proofs.BytesProofs Proofs.AtomicProofs.
Import ListNotations.
Open Scope Z_scope.

(* ---------- list surgery at the end of the message ---------- *)
Lemma take_app_exact (m r : list Z) : take (blen m) (m ++ r) = m.
Proof. unfold take, blen. rewrite Nat2Z.id, firstn_app, Nat.sub_diag, firstn_all. simpl. apply app_nil_r. Qed.
Lemma drop_app_exact (m r : list Z) : drop (blen m) (m ++ r) = r.
Proof. unfold drop, blen. rewrite Nat2Z.id, skipn_app, Nat.sub_diag, skipn_all. reflexivity. Qed.
Lemma drop_all (m : list Z) n : blen m <= n -> drop n m = [].
Proof. intros H. unfold drop. apply skipn_all2. unfold blen in H. lia. Qed.

Lemma grow_at_end pos n (msg : list Z) : blen msg = pos -> grow (pos + n) msg = msg ++ zeros n.
Proof. intros <-. unfold grow. f_equal. f_equal. lia. Qed.

Lemma slice_at_end (m w : list Z) : slice (blen m) (blen w) (m ++ w) = w.
Proof.
  unfold slice. rewrite drop_app_exact. unfold take, blen. rewrite Nat2Z.id. apply firstn_all.
Qed.

Lemma splice_at_end (m z new : list Z) : blen z = blen new -> splice (blen m) new (m ++ z) = m ++ new.
Proof.
  intros H. unfold splice. rewrite take_app_exact. f_equal.
  rewrite drop_all; [apply app_nil_r|]. rewrite blen_app. lia.
Qed.

Lemma slice_app_l c n (m r : list Z) : 0 <= c -> 0 <= n -> c + n <= blen m -> slice c n (m ++ r) = slice c n m.
Proof.
  intros Hc Hn H. unfold slice, take, drop. rewrite skipn_app, firstn_app.
  assert (L : List.length (skipn (Z.to_nat c) m) = (List.length m - Z.to_nat c)%nat) by apply skipn_length.
  unfold blen in H.
  replace (Z.to_nat n - List.length (skipn (Z.to_nat c) m))%nat with 0%nat by lia.
  simpl. apply app_nil_r.
Qed.

Lemma mask_clash_zeros : forall n mk, mask_clash (repeat 0 n) mk = false.
Proof. induction n as [|n IH]; intros [|k mk]; simpl; auto. Qed.

Lemma zeros_blen n : 0 <= n -> blen (zeros n) = n.
Proof. intros. rewrite zeros_length. lia. Qed.

(* ---------- emplace_bytes with a mask, at the end of the message ---------- *)
Definition at_end (s : estate) : Prop :=
  e_bit s = 0 /\ e_cur s = blen (e_msg s) /\ blen (e_used s) = e_cur s /\ bytes_ok (e_msg s) = true.

Lemma emplace_masked_at_end s new mk s' :
  at_end s -> blen mk = blen new -> emplace_bytes s new (Some mk) = Ok s' ->
  exists w, e_msg s' = e_msg s ++ w /\ blen w = blen new /\ e_cur s' = e_cur s + blen new /\
            e_bit s' = 0 /\ blen (e_used s') = e_cur s' /\ e_warn s' = e_warn s /\
            e_origin s' = e_origin s /\ e_eop s' = e_eop s /\ e_lkeys s' = e_lkeys s /\
            e_keypos s' = e_keypos s /\ e_req s' = e_req s.
Proof.
  intros (Hb & Hc & Hu & Hok) Hm H. unfold emplace_bytes in H. rewrite Hb in H. simpl in H.
  rewrite Hm in H. replace (blen new <? blen new) with false in H by lia.
  pose proof (blen_nonneg new) as Hn.
  assert (Tk : take (blen new) mk = mk).
  { unfold take. rewrite <- Hm. unfold blen. rewrite Nat2Z.id. apply firstn_all. }
  rewrite Tk in H.
  rewrite (grow_at_end (e_cur s) (blen new) (e_msg s)) in H by auto.
  rewrite (grow_at_end (e_cur s) (blen new) (e_used s)) in H by auto.
  rewrite Hc in H.
  assert (Z1 : blen (zeros (blen new)) = blen new) by (apply zeros_blen; lia).
  rewrite <- Z1 in H at 1 3.
  rewrite slice_at_end in H.
  assert (Su : slice (blen (e_msg s)) (blen new) (e_used s ++ zeros (blen new)) = zeros (blen new)).
  { rewrite <- Hc, <- Hu. rewrite <- Z1 at 1. apply slice_at_end. }
  rewrite Z1 in H. rewrite Su in H.
  set (New := masked_write (zeros (blen new)) new mk) in *.
  assert (LNew : blen New = blen new).
  { unfold New, blen. rewrite masked_write_length; unfold blen, zeros in *; rewrite ?repeat_length; lia. }
  set (U := mask_or (zeros (blen new)) mk) in *.
  assert (LU : blen U = blen new).
  { unfold U, zeros. clear -Hm Hn. unfold blen in *.
    assert (G : forall n (k : list Z), List.length k = n -> List.length (mask_or (repeat 0 n) k) = n).
    { induction n as [|n IH]; intros [|x k] Hk; simpl in *; try lia. f_equal. apply IH. lia. }
    rewrite G; lia. }
  injection H as <-. cbn.
  exists New. repeat split; auto; try lia.
  - apply splice_at_end. lia.
  - assert (E : blen (e_msg s) = blen (e_used s)) by lia. rewrite E.
    rewrite splice_at_end by lia. rewrite blen_app. lia.
  - unfold zeros. rewrite mask_clash_zeros. apply orb_false_r.
Qed.

Lemma emplace_masked_at_end_ok s new mk :
  at_end s -> blen mk = blen new -> exists s', emplace_bytes s new (Some mk) = Ok s'.
Proof.
  intros (Hb & _) Hm. unfold emplace_bytes. rewrite Hb. simpl. rewrite Hm.
  replace (blen new <? blen new) with false by lia. eauto.
Qed.

(* ---------- reading depends on the slice only: later bytes and the origin are irrelevant ---------- *)
Lemma extract_atomic_frame m r o c b lk bl bt en hl v c' :
  0 <= c -> 0 < bl -> 0 <= b ->
  extract_atomic (mkD m 0 c b lk) bl bt en hl = Ok (v, mkD m 0 c' 0 lk) ->
  extract_atomic (mkD (m ++ r) o c b lk) bl bt en hl = Ok (v, mkD (m ++ r) o c' 0 lk).
Proof.
  intros Hc Hbl Hb H. unfold extract_atomic in *. cbn [d_msg d_cur d_bit d_origin d_lkeys] in *.
  replace (bl =? 0) with false in * by lia.
  destruct (blen m <? c + nbytes_of bl b) eqn:E1; [discriminate|].
  assert (L : c + nbytes_of bl b <= blen m) by lia.
  rewrite blen_app. pose proof (blen_nonneg r).
  replace (blen m + blen r <? c + nbytes_of bl b) with false by lia.
  destruct (negb (is_numeric bt) && negb (bl mod 8 =? 0)); [discriminate|].
  destruct (is_numeric bt && (64 <? bl)); [discriminate|].
  assert (Hn : 0 <= nbytes_of bl b) by (unfold nbytes_of; apply Z.div_pos; lia).
  rewrite slice_app_l by lia.
  destruct (value_of_raw _ bl bt en hl) as [x|e]; cbn [bind] in *; [|discriminate].
  injection H as -> <-. reflexivity.
Qed.

(* ---------- one value appended at the end ---------- *)
(* the encoder accepts v (raw_of succeeds, the raw value fits, the decoder's conversion inverts it):
   for signed / unsigned integers, byte fields and latin-1 strings the last two parts follow from the
   first by the theorems C01_*_values *)
Definition codable (v : value) (bl : Z) (bt : btype) (en : option enc) (hl : bool) : Prop :=
  exists raw, raw_of v bl bt en hl = Ok raw /\ 0 <= raw < 2 ^ bl /\ value_of_raw raw bl bt en hl = Ok v.

Lemma raw_of_uint z bl hl : 0 <= bl -> 0 <= z < 2 ^ bl -> raw_of (VInt z) bl BUint None hl = Ok z.
Proof.
  intros Hbl Hz. unfold raw_of. replace (z <? 0) with false by lia.
  replace (bl <? bit_len z) with false; [reflexivity|].
  symmetry. apply Z.ltb_ge. apply bit_len_le; lia.
Qed.

Lemma codable_uint z bl hl : 0 < bl -> 0 <= z < 2 ^ bl -> codable (VInt z) bl BUint None hl.
Proof.
  intros Hbl Hz. exists z. pose proof (raw_of_uint z bl hl ltac:(lia) Hz) as Hr.
  destruct (uint_raw_roundtrip z bl None hl z ltac:(lia) (or_introl eq_refl) Hr) as [_ Hv].
  split; [exact Hr|]. split; [lia | exact Hv].
Qed.

Lemma at_end_set_bit s : at_end s -> at_end (set_bit s 0).
Proof. intros (A & B & C & D). repeat split; auto. Qed.

Lemma emplace_val_at_end s v bl bt en hl :
  at_end s -> 0 < bl -> is_numeric bt && (64 <? bl) = false -> codable v bl bt en hl ->
  exists s' w,
    emplace_atomic s v bl bt en hl None = Ok s' /\ at_end s' /\
    e_msg s' = e_msg s ++ w /\ blen w = nbytes_of bl 0 /\ e_cur s' = e_cur s + nbytes_of bl 0 /\
    e_warn s' = e_warn s /\ e_origin s' = e_origin s /\ e_eop s' = e_eop s /\
    e_lkeys s' = e_lkeys s /\ e_keypos s' = e_keypos s /\ e_req s' = e_req s /\
    forall r o lk, extract_atomic (mkD (e_msg s' ++ r) o (e_cur s) 0 lk) bl bt en hl
                   = Ok (v, mkD (e_msg s' ++ r) o (e_cur s') 0 lk).
Proof.
  intros Hend Hbl Hwide (raw & Hraw & Hz & Hv). pose proof Hend as (Hb & Hc & Hu & Hok).
  (* existence *)
  assert (Ex : exists s', emplace_atomic s v bl bt en hl None = Ok s').
  { unfold emplace_atomic. rewrite Hraw. cbn [bind]. replace (bl =? 0) with false by lia.
    rewrite Hwide. rewrite Hb. cbn [Z.eqb negb andb].
    apply emplace_masked_at_end_ok; [now apply at_end_set_bit|].
    destruct (negb hl && is_numeric bt); rewrite ?blen_rev; unfold blen; rewrite !to_be_length; reflexivity. }
  destruct Ex as (s' & Hs'). exists s'.
  (* shape of the result *)
  pose proof Hs' as Hshape. unfold emplace_atomic in Hshape. rewrite Hraw in Hshape. cbn [bind] in Hshape.
  replace (bl =? 0) with false in Hshape by lia. rewrite Hwide in Hshape. rewrite Hb in Hshape.
  cbn [Z.eqb negb andb] in Hshape.
  match type of Hshape with emplace_bytes _ ?new (Some ?mk) = _ =>
    assert (Lm : blen mk = blen new)
      by (destruct (negb hl && is_numeric bt); rewrite ?blen_rev; unfold blen; rewrite !to_be_length; reflexivity);
    assert (Ln : blen new = nbytes_of bl 0)
      by (destruct (negb hl && is_numeric bt); rewrite ?blen_rev; unfold blen; rewrite !to_be_length;
          assert (0 <= nbytes_of bl 0) by (unfold nbytes_of; apply Z.div_pos; lia); lia);
    destruct (emplace_masked_at_end (set_bit s 0) new mk s' (at_end_set_bit s Hend) Lm Hshape)
      as (w & Em & Lw & Ecur & Ebit & Eused & Ewarn & Eo & Eeop & Elk & Ekp & Erq)
  end.
  cbn [set_bit e_msg e_cur e_warn e_origin e_eop e_lkeys e_keypos e_req] in *.
  (* read back *)
  destruct (emplace_then_extract s v bl bt en hl s' raw [] ltac:(lia)
              ltac:(rewrite Hc; apply blen_nonneg) ltac:(lia) Hok Hraw Hz Hs') as (Hex & Hcur' & Hok').
  exists w. repeat split; auto; try lia.
  - rewrite Em, blen_app. lia.
  - intros r o lk.
    pose proof (emplace_then_extract s v bl bt en hl s' raw lk ltac:(lia)
                  ltac:(rewrite Hc; apply blen_nonneg) ltac:(lia) Hok Hraw Hz Hs') as (Hex2 & _ & _).
    rewrite Hv in Hex2. cbn [bind] in Hex2. unfold dview in Hex2. rewrite Hb in Hex2.
    apply extract_atomic_frame; auto; try lia. rewrite Hc. apply blen_nonneg.
Qed.

(* ---------- one parameter ---------- *)
(* a VALUE parameter with implicit position whose DOP is a STANDARD-LENGTH-TYPE without bit mask
   and the IDENTICAL compu method *)
(* f_const = Some cv: a CODED-CONST parameter with that value instead (f_pt is then unused) *)
Record fdesc := mkF { f_name : name; f_bl : Z; f_bt : btype; f_en : option enc; f_hl : bool; f_pt : btype;
                      f_const : option value }.
Definition fname (x : fdesc) : name := f_name x.
Definition mkp (x : fdesc) : param :=
  match f_const x with
  | None => P (f_name x) None None
              (KValue (DSimple (Std (f_bt x) (f_en x) (f_hl x) (f_bl x) None) CIdent (f_pt x)) None)
  | Some cv => P (f_name x) None None (KCoded (Std (f_bt x) (f_en x) (f_hl x) (f_bl x) None) cv)
  end.
Definition is_value (x : fdesc) : bool := match f_const x with None => true | Some _ => false end.
Definition fbytes (x : fdesc) : Z := nbytes_of (f_bl x) 0.

(* the description is sane and the value is one the encoder accepts *)
Definition fits (x : fdesc) (v : value) : Prop :=
  0 < f_bl x /\ is_numeric (f_bt x) && (64 <? f_bl x) = false /\
  isinstance_bt (f_pt x) v = true /\ isinstance_bt (f_bt x) v = true /\
  codable v (f_bl x) (f_bt x) (f_en x) (f_hl x) /\
  match f_const x with Some cv => v = cv | None => True end.

Lemma not_none_of_instance bt v : isinstance_bt bt v = true -> is_none v = false.
Proof. destruct bt, v; simpl; congruence. Qed.

Lemma enc_flat_param f x kv s v :
  at_end s -> fits x v ->
  lookup (f_name x) kv = (if is_value x then Some v else None) ->
  exists s' w,
    enc_param (S (S f)) (mkp x) kv s = Ok s' /\ at_end s' /\
    e_msg s' = e_msg s ++ w /\ blen w = fbytes x /\ e_cur s' = e_cur s + fbytes x /\
    e_warn s' = e_warn s /\ e_origin s' = e_origin s /\
    forall r o lk, extract_atomic (mkD (e_msg s' ++ r) o (e_cur s) 0 lk) (f_bl x) (f_bt x) (f_en x) (f_hl x)
                   = Ok (v, mkD (e_msg s' ++ r) o (e_cur s') 0 lk).
Proof.
  intros Hend (Hbl & Hwide & Hpt & Hbt & Hcod & Hc) Hl.
  destruct (emplace_val_at_end (set_bit s 0) v (f_bl x) (f_bt x) (f_en x) (f_hl x) (at_end_set_bit s Hend) Hbl Hwide Hcod)
    as (s1 & w & He & Hend1 & Hm & Hw & Hcur & Hwarn & Ho & Heop & Hlk & Hkp & Hrq & Hread).
  cbn [set_bit e_msg e_cur e_warn e_origin e_eop e_lkeys e_keypos e_req] in *.
  exists (set_bit s1 0), w.
  split.
  - unfold mkp, is_value in *. destruct (f_const x) as [cv|].
    + subst cv. cbn [enc_param]. unfold is_required. cbn [pkind_of negb orb guard bind].
      unfold vget. rewrite Hl. cbn [is_none orb guard bind opt_or0 enc_dct std_apply_mask std_used_mask].
      rewrite He. reflexivity.
    + cbn [enc_param]. unfold is_required. cbn [pkind_of]. rewrite Hl. cbn [negb orb guard bind].
      unfold vget. rewrite Hl. rewrite (not_none_of_instance _ _ Hpt). cbn [negb guard bind opt_or0].
      cbn [enc_dop]. cbn [valid_phys]. rewrite Hpt. cbn [guard bind p2i valid_int dct_bt]. rewrite Hbt. cbn [guard bind enc_dct std_apply_mask std_used_mask].
      rewrite He. rewrite ?(not_none_of_instance _ _ Hpt). reflexivity.
  - destruct Hend1 as (A & B & C & D).
    repeat split; cbn [set_bit e_bit e_cur e_msg e_used e_warn e_origin e_eop e_lkeys e_keypos e_req]; auto.
Qed.

Lemma dec_flat_param f x M o c lk v c' :
  isinstance_bt (f_bt x) v = true ->
  extract_atomic (mkD M o c 0 lk) (f_bl x) (f_bt x) (f_en x) (f_hl x) = Ok (v, mkD M o c' 0 lk) ->
  dec_param (S (S f)) (mkp x) (mkD M o c 0 lk) = Ok (v, mkD M o c' 0 lk).
Proof.
  intros Hi H. unfold mkp. destruct (f_const x) as [cv|].
  - cbn [dec_param]. cbn [opt_or0 dset_bit d_msg d_origin d_cur d_lkeys].
    cbn [dec_dct]. unfold dset_bit at 1. cbn [d_msg d_origin d_cur d_lkeys]. rewrite H.
    cbn [bind fst snd dset_bit d_msg d_origin d_cur d_lkeys]. reflexivity.
  - cbn [dec_param]. cbn [opt_or0 dset_bit d_msg d_origin d_cur d_lkeys].
    cbn [dec_dop dec_dct]. unfold dset_bit at 1. cbn [d_msg d_origin d_cur d_lkeys]. rewrite H. cbn [bind].
    cbn [valid_int dct_bt]. rewrite Hi. cbn [i2p bind fst snd dset_bit d_msg d_origin d_cur d_lkeys].
    reflexivity.
Qed.

(* ---------- the loops of enc_composite / dec_composite as standalone functions ---------- *)
Definition enc_go (f : nat) (kv : list (name * value)) (n : Z) (orig_eop : bool) :=
  fix go (l : list param) (i : Z) (s : estate) : res estate :=
    match l with
    | [] => Ok s
    | p :: r =>
      let s := if i =? n - 1 then set_eop s orig_eop else s in
      do s1 <- enc_param f p kv s;
      go r (i + 1) s1
    end.

Definition dec_go (f : nat) :=
  fix go (l : list param) (s : dstate) (acc : list (name * value)) : res (list (name * value) * dstate) :=
    match l with
    | [] => Ok (acc, s)
    | p :: r =>
      do vs <- dec_param f p s;
      let '(v, s1) := vs in
      go r s1 (update (pname p) v acc)
    end.

Lemma bytes_eqb_eq : forall a b, bytes_eqb a b = true <-> a = b.
Proof.
  induction a as [|x a IH]; intros [|y b]; simpl; split; intros H; try discriminate; auto.
  - apply andb_true_iff in H as [H1 H2]. apply Z.eqb_eq in H1. apply IH in H2. now subst.
  - inversion H. subst. rewrite Z.eqb_refl. simpl. now apply IH.
Qed.

Lemma at_end_set_eop s b : at_end s -> at_end (set_eop s b).
Proof. intros (A & B & C & D). repeat split; auto. Qed.

Section Loop.
  Variable kv : list (name * value).
  Variable vv : name -> value.

  Definition good (x : fdesc) : Prop :=
    fits x (vv (fname x)) /\ lookup (fname x) kv = (if is_value x then Some (vv (fname x)) else None).

  Definition acc_step (a : list (name * value)) (x : fdesc) := update (fname x) (vv (fname x)) a.

  Lemma flat_loop f f' n oe : forall fl s i,
    at_end s -> (forall x, In x fl -> good x) ->
    exists s' w,
      enc_go (S (S f)) kv n oe (map mkp fl) i s = Ok s' /\ at_end s' /\ e_warn s' = e_warn s /\
      e_msg s' = e_msg s ++ w /\ blen w = fold_right (fun x a => fbytes x + a) 0 fl /\
      e_origin s' = e_origin s /\
      forall r o lk acc,
        dec_go (S (S f')) (map mkp fl) (mkD (e_msg s' ++ r) o (e_cur s) 0 lk) acc =
        Ok (fold_left acc_step fl acc, mkD (e_msg s' ++ r) o (e_cur s') 0 lk).
  Proof.
    induction fl as [|x fl IH]; intros s i Hend Hg.
    - exists s, []. cbn [map enc_go dec_go fold_left fold_right]. rewrite app_nil_r.
      split; [reflexivity|]. split; [exact Hend|]. do 4 (split; [reflexivity|]).
      intros r o lk acc. reflexivity.
    - destruct (Hg x (or_introl eq_refl)) as (Hfit & Hl).
      set (s0 := if i =? n - 1 then set_eop s oe else s).
      assert (Hend0 : at_end s0) by (unfold s0; destruct (i =? n - 1); auto using at_end_set_eop).
      assert (E0 : e_msg s0 = e_msg s /\ e_cur s0 = e_cur s /\ e_warn s0 = e_warn s /\ e_origin s0 = e_origin s)
        by (unfold s0; destruct (i =? n - 1); repeat split; reflexivity).
      destruct E0 as (Em0 & Ec0 & Ew0 & Eo0).
      destruct (enc_flat_param f x kv s0 (vv (fname x)) Hend0 Hfit Hl)
        as (s1 & w1 & He1 & Hend1 & Hm1 & Hw1 & Hc1 & Hwarn1 & Ho1 & Hread1).
      destruct (IH s1 (i + 1) Hend1 (fun y Hy => Hg y (or_intror Hy)))
        as (s' & w2 & He2 & Hend2 & Hwarn2 & Hm2 & Hw2 & Ho2 & Hdec2).
      exists s', (w1 ++ w2). split; [|split; [|split; [|split; [|split; [|split]]]]].
      + cbn [map enc_go]. fold s0. rewrite He1. cbn [bind]. exact He2.
      + exact Hend2.
      + congruence.
      + rewrite Hm2, Hm1, Em0. now rewrite app_assoc.
      + rewrite blen_app, Hw1, Hw2. reflexivity.
      + congruence.
      + intros r o lk acc. cbn [map dec_go].
        assert (R1 : e_msg s' ++ r = e_msg s1 ++ (w2 ++ r)) by (rewrite Hm2; now rewrite <- app_assoc).
        destruct Hfit as (_ & _ & _ & Hbt & _ & _).
        rewrite (dec_flat_param f' x (e_msg s' ++ r) o (e_cur s) lk (vv (fname x)) (e_cur s1) Hbt).
        * cbn [bind]. replace (pname (mkp x)) with (fname x) by (unfold mkp; destruct (f_const x); reflexivity).
          rewrite Hdec2. reflexivity.
        * rewrite R1. rewrite <- Ec0. apply Hread1.
  Qed.
End Loop.

(* ---------- dictionaries ---------- *)
Definition fvals (vv : name -> value) (fl : list fdesc) : list (name * value) :=
  map (fun x => (fname x, vv (fname x))) fl.

Lemma lookup_fvals vv : forall fl x, In x fl -> lookup (fname x) (fvals vv fl) = Some (vv (fname x)).
Proof.
  induction fl as [|y fl IH]; intros x Hx; [contradiction|]. cbn [fvals map lookup].
  destruct (bytes_eqb (fname x) (fname y)) eqn:E.
  - apply bytes_eqb_eq in E. now rewrite E.
  - destruct Hx as [->|Hx]; [|now apply IH].
    assert (bytes_eqb (fname x) (fname x) = true) by now apply bytes_eqb_eq. congruence.
Qed.

Lemma update_fresh {A} k (v : A) : forall l, ~ In k (map fst l) -> update k v l = l ++ [(k, v)].
Proof.
  induction l as [|[k' v'] l IH]; intros H; cbn [update app]; [reflexivity|].
  destruct (bytes_eqb k k') eqn:E.
  - apply bytes_eqb_eq in E. subst. exfalso. apply H. now left.
  - f_equal. apply IH. intros Hin. apply H. now right.
Qed.

Lemma fold_update_nodup vv : forall fl acc,
  NoDup (map fname fl) -> (forall x, In x fl -> ~ In (fname x) (map fst acc)) ->
  fold_left (acc_step vv) fl acc = acc ++ fvals vv fl.
Proof.
  induction fl as [|x fl IH]; intros acc ND Hf; cbn [fold_left fvals map]; [now rewrite app_nil_r|].
  inversion ND as [|? ? Hx ND']. subst.
  unfold acc_step at 2. rewrite update_fresh by (apply Hf; now left).
  rewrite IH; auto.
  - rewrite <- app_assoc. reflexivity.
  - intros y Hy. rewrite map_app, in_app_iff. intros [H|[H|[]]].
    + apply (Hf y (or_intror Hy)). exact H.
    + cbn in H. apply Hx. rewrite H. now apply in_map.
Qed.

Lemma pname_mkp x : pname (mkp x) = fname x.
Proof. unfold mkp. destruct (f_const x); reflexivity. Qed.

(* the dictionary handed to the encoder holds the VALUE parameters only *)
Lemma lookup_filtered vv : forall fl x,
  NoDup (map fname fl) -> In x fl ->
  lookup (fname x) (fvals vv (filter is_value fl)) = (if is_value x then Some (vv (fname x)) else None).
Proof.
  induction fl as [|y fl IH]; intros x ND Hx; [contradiction|].
  inversion ND as [|? ? Hy ND']. subst. cbn [filter].
  destruct Hx as [->|Hx].
  - destruct (is_value x) eqn:Ev.
    + cbn [fvals map lookup]. assert (E : bytes_eqb (fname x) (fname x) = true) by now apply bytes_eqb_eq.
      now rewrite E.
    + (* not in the rest either: names are distinct *)
      assert (G : forall l, ~ In (fname x) (map fname l) -> lookup (fname x) (fvals vv (filter is_value l)) = None).
      { induction l as [|z l IHl]; intros Hn; [reflexivity|]. cbn [filter].
        assert (Hz : fname x <> fname z) by (intros E; apply Hn; left; now rewrite E).
        assert (Hr : ~ In (fname x) (map fname l)) by (intros Hin; apply Hn; now right).
        destruct (is_value z); [|now apply IHl].
        cbn [fvals map lookup]. destruct (bytes_eqb (fname x) (fname z)) eqn:E; [apply bytes_eqb_eq in E; contradiction|].
        now apply IHl. }
      now apply G.
  - assert (Hne : fname x <> fname y) by (intros E; apply Hy; rewrite <- E; now apply in_map).
    destruct (is_value y).
    + cbn [fvals map lookup]. destruct (bytes_eqb (fname x) (fname y)) eqn:E; [apply bytes_eqb_eq in E; contradiction|].
      now apply IH.
    + now apply IH.
Qed.

Lemma known_params vv : forall fl fl',
  incl fl fl' ->
  forallb (fun k => existsb (fun p => bytes_eqb (fst k) (pname p)) (map mkp fl')) (fvals vv fl) = true.
Proof.
  induction fl as [|x fl IH]; intros fl' Hi; cbn [fvals map forallb]; [reflexivity|].
  apply andb_true_iff. split; [|apply IH; intros y Hy; apply Hi; now right].
  apply existsb_exists. exists (mkp x). split; [apply in_map, Hi; now left|].
  rewrite pname_mkp. cbn. now apply bytes_eqb_eq.
Qed.

(* the LENGTH-KEY pass of enc_composite does nothing for these parameters *)
Definition keys_go (f : nat) :=
  fix keys (l : list param) (s : estate) : res estate :=
    match l with
    | [] => Ok s
    | P nm bp bt (KLenKey d) :: r =>
      match lookup nm (e_lkeys s) with
      | None => Err ERej
      | Some lv =>
        let s := set_bit (set_cur s (match lookup nm (e_keypos s) with Some p => p | None => 0 end))
                         (opt_or0 bt) in
        do s1 <- enc_dop f d (VInt lv) s;
        keys r s1
      end
    | _ :: r => keys r s
    end.

Lemma keys_flat f : forall fl s, keys_go f (map mkp fl) s = Ok s.
Proof.
  induction fl as [|x fl IH]; intros s; cbn [map keys_go]; [reflexivity|].
  unfold mkp at 1. destruct (f_const x); apply IH.
Qed.

(* ... and such a parameter list has no keys of its own to forget *)
Lemma own_keys_nil ps :
  (forall p, In p ps -> match pkind_of p with KLenKey _ => False | _ => True end) -> own_keys ps = [].
Proof.
  induction ps as [|p ps IH]; intros H; [reflexivity|]. unfold own_keys. cbn [flat_map].
  pose proof (H p (or_introl eq_refl)) as Hp.
  destruct (pkind_of p); try contradiction; cbn [app]; apply IH; intros q Hq; apply H; now right.
Qed.
(* after unfolding enc_composite: the object has no keys of its own, [tac] proves that *)
Ltac no_own_keys tac :=
  match goal with |- context [drop_keys (own_keys ?ps) _] =>
    replace (own_keys ps) with (@nil name) by (symmetry; apply own_keys_nil; tac)
  end; cbn [drop_keys].
Lemma own_keys_flat fl : own_keys (map mkp fl) = [].
Proof.
  apply own_keys_nil. intros p Hp. apply in_map_iff in Hp as (x & <- & _). unfold mkp. destruct (f_const x); exact I.
Qed.

(* ---------- the theorem ---------- *)
Theorem flat_roundtrip fl vv :
  (forall x, In x fl -> fits x (vv (fname x))) -> NoDup (map fname fl) ->
  exists msg,
    encode_msg (map mkp fl) None (VDict (fvals vv (filter is_value fl))) = Ok (msg, false) /\
    decode_msg (map mkp fl) msg = Ok (VDict (fvals vv fl)) /\
    blen msg = fold_right (fun x a => fbytes x + a) 0 fl.
Proof.
  intros Hv ND.
  set (ps := map mkp fl). set (kv := fvals vv (filter is_value fl)).
  assert (Hg : forall x, In x fl -> good kv vv x).
  { intros x Hx. split; [now apply Hv | now apply lookup_filtered]. }
  assert (Hfuel : exists k, fuel_of ps = S (S (S k))).
  { unfold fuel_of. exists (4 * dop_size 64 (DStruct ps None) + 5)%nat. lia. }
  destruct Hfuel as (k & Hk).
  set (s0 := set_eop (set_origin (estate0 None) (e_cur (estate0 None))) false).
  assert (Hend0 : at_end s0) by (repeat split; reflexivity).
  destruct (flat_loop kv vv k k (zlen ps) (e_eop (estate0 None)) fl s0 0 Hend0 Hg)
    as (s' & w & He & Hend' & Hwarn & Hm & Hw & Ho & Hdec).
  exists (e_msg s'). split; [|split].
  - unfold encode_msg. rewrite Hk. cbn [enc_composite].
    replace (own_keys ps) with (@nil name) by (symmetry; apply own_keys_flat). cbn [drop_keys].
    cbn [estate0 e_bit Z.eqb guard bind].
    assert (Hi : incl (filter is_value fl) fl) by (intros y Hy; apply filter_In in Hy; tauto).
    pose proof (known_params vv (filter is_value fl) fl Hi) as Hkp. fold ps in Hkp. fold kv in Hkp. rewrite Hkp.
    cbn [guard bind].
    unfold enc_go in He. fold ps in He. unfold s0 in He. rewrite He. cbn [bind].
    pose proof (keys_flat (S (S k)) fl (set_eop s' false)) as Hkeys. unfold keys_go in Hkeys. fold ps in Hkeys.
    rewrite Hkeys. cbn [bind e_msg e_warn set_origin set_cur set_eop].
    rewrite Hwarn. reflexivity.
  - unfold decode_msg. rewrite Hk. cbn [dec_composite dstate0 d_origin d_cur dset_origin d_msg d_bit d_lkeys].
    specialize (Hdec [] 0 [] []). rewrite app_nil_r in Hdec. unfold dec_go in Hdec. fold ps in Hdec.
    cbn [s0 estate0 e_cur set_eop set_origin] in Hdec.
    change (dset_origin (dstate0 (e_msg s')) 0) with (mkD (e_msg s') 0 0 0 []).
    rewrite Hdec. cbn [bind fst].
    rewrite fold_update_nodup; auto.
  - rewrite Hm. cbn. exact Hw.
Qed.

(* ---------- the static length of such a message is the length of every encoding ---------- *)
Definition sb_go (f : nat) :=
  fix go (ps : list param) (cursor len : Z) : option Z :=
    match ps with
    | [] => Some (8 * len)
    | P _ bp bt k :: r =>
      match (match k with
             | KCoded dc _ | KNrc dc _ => static_bits_dct dc
             | KValue d' _ | KPhysConst d' _ | KLenKey d' => static_bits f d'
             | KReserved bl => Some bl
             | KMatchReq _ len => Some (8 * len)
             end) with
      | None => None
      | Some pbl =>
        let cursor := match bp with Some b => b | None => cursor end in
        let cursor := cursor + ((match bt with Some b => b | None => 0 end) + pbl + 7) / 8 in
        go r cursor (Z.max len cursor)
      end
    end.

Lemma sb_flat f : forall fl c,
  0 <= c -> (forall x, In x fl -> 0 < f_bl x) ->
  sb_go (S f) (map mkp fl) c c = Some (8 * (c + fold_right (fun x a => fbytes x + a) 0 fl)).
Proof.
  induction fl as [|x fl IH]; intros c Hc Hpos; cbn [map sb_go fold_right].
  - f_equal. lia.
  - assert (Hb : 0 < f_bl x) by (apply Hpos; now left).
    assert (E : (0 + f_bl x + 7) / 8 = fbytes x) by (unfold fbytes, nbytes_of; f_equal; lia).
    assert (Hf : 0 <= fbytes x) by (unfold fbytes, nbytes_of; apply Z.div_pos; lia).
    unfold mkp at 1. destruct (f_const x); cbn [sb_go static_bits static_bits_dct]; cbv zeta;
      rewrite E; replace (Z.max c (c + fbytes x)) with (c + fbytes x) by lia;
      (rewrite IH; [f_equal; lia | lia | intros y Hy; apply Hpos; now right]).
Qed.

Theorem flat_static_length fl :
  (forall x, In x fl -> 0 < f_bl x) ->
  static_bits_msg (map mkp fl) = Some (8 * fold_right (fun x a => fbytes x + a) 0 fl).
Proof.
  intros Hpos. unfold static_bits_msg.
  assert (Hfuel : exists k, fuel_of (map mkp fl) = S (S k)).
  { unfold fuel_of. exists (4 * dop_size 64 (DStruct (map mkp fl) None) + 6)%nat. lia. }
  destruct Hfuel as (k & ->). cbn [static_bits].
  pose proof (sb_flat k fl 0 ltac:(lia) Hpos) as H.
  transitivity (sb_go (S k) (map mkp fl) 0 0); [reflexivity | rewrite H; f_equal].
Qed.

(* every encoding of such a message has exactly the statically described length *)
Corollary flat_length_is_static fl vv msg w :
  (forall x, In x fl -> fits x (vv (fname x))) -> NoDup (map fname fl) ->
  encode_msg (map mkp fl) None (VDict (fvals vv (filter is_value fl))) = Ok (msg, w) ->
  static_bits_msg (map mkp fl) = Some (8 * blen msg).
Proof.
  intros Hv ND He. destruct (flat_roundtrip fl vv Hv ND) as (m & He' & _ & Hl).
  rewrite He in He'. injection He' as -> _. rewrite Hl.
  apply flat_static_length. intros x Hx. now destruct (Hv x Hx).
Qed.

(* the hypothesis [fits] is met by unsigned and signed integers in range, and (via C01_*_values) by
   every value raw_of accepts *)
Lemma fits_uint nm bl hl z :
  0 < bl <= 64 -> 0 <= z < 2 ^ bl -> fits (mkF nm bl BUint None hl BUint None) (VInt z).
Proof.
  intros Hbl Hz. unfold fits. cbn [f_bl f_bt f_en f_hl f_pt f_const is_numeric isinstance_bt].
  split; [lia|]. split; [replace (64 <? bl) with false by lia; reflexivity|].
  split; [reflexivity|]. split; [reflexivity|]. split; [apply codable_uint; lia | exact I].
Qed.

Lemma fits_int nm bl en hl z raw :
  0 < bl <= 64 -> (en = None \/ en = Some Enc2C \/ en = Some Enc1C \/ en = Some EncSM) ->
  raw_of (VInt z) bl BInt en hl = Ok raw -> fits (mkF nm bl BInt en hl BInt None) (VInt z).
Proof.
  intros Hbl Hen Hr. unfold fits. cbn [f_bl f_bt f_en f_hl f_pt f_const is_numeric isinstance_bt].
  split; [lia|]. split; [replace (64 <? bl) with false by lia; reflexivity|].
  split; [reflexivity|]. split; [reflexivity|]. split; [|exact I].
  destruct (int_raw_roundtrip z bl en hl raw ltac:(lia) Hen Hr) as [A B]. exists raw. auto.
Qed.

Lemma fits_const_uint nm bl hl z :
  0 < bl <= 64 -> 0 <= z < 2 ^ bl -> fits (mkF nm bl BUint None hl BUint (Some (VInt z))) (VInt z).
Proof.
  intros Hbl Hz. unfold fits. cbn [f_bl f_bt f_en f_hl f_pt f_const is_numeric isinstance_bt].
  split; [lia|]. split; [replace (64 <? bl) with false by lia; reflexivity|].
  split; [reflexivity|]. split; [reflexivity|]. split; [apply codable_uint; lia | reflexivity].
Qed.

(* a typical UDS request: service id and sub-function as constants, then values *)
Example flat_example :
  let fl := [mkF [115] 8 BUint None true BUint (Some (VInt 34));
             mkF [112; 50] 12 BUint None false BUint None;
             mkF [112; 51] 64 BUint None true BUint None; mkF [112; 52] 8 BInt (Some Enc2C) true BInt None] in
  let vv := fun nm => if bytes_eqb nm [115] then VInt 34 else if bytes_eqb nm [112; 50] then VInt 2748
                      else if bytes_eqb nm [112; 51] then VInt (2 ^ 64 - 1) else VInt (-2) in
  encode_msg (map mkp fl) None (VDict (fvals vv (filter is_value fl))) =
    Ok ([34; 188; 10; 255; 255; 255; 255; 255; 255; 255; 255; 254], false) /\
  decode_msg (map mkp fl) [34; 188; 10; 255; 255; 255; 255; 255; 255; 255; 255; 254] = Ok (VDict (fvals vv fl)) /\
  static_bits_msg (map mkp fl) = Some 96.
Proof. vm_compute. repeat split. Qed.

(* ====================================================================================== *)
(* the other direction (C03): decoding a message of such a description and encoding the    *)
(* decoded values reproduces the message                                                   *)
(* ====================================================================================== *)
Lemma emplace_masked_at_end_eq s new mk s' :
  at_end s -> blen mk = blen new -> emplace_bytes s new (Some mk) = Ok s' ->
  e_msg s' = e_msg s ++ masked_write (zeros (blen new)) new mk.
Proof.
  intros (Hb & Hc & Hu & Hok) Hm H. unfold emplace_bytes in H. rewrite Hb in H. simpl in H.
  rewrite Hm in H. replace (blen new <? blen new) with false in H by lia.
  pose proof (blen_nonneg new) as Hn.
  assert (Tk : take (blen new) mk = mk).
  { unfold take. rewrite <- Hm. unfold blen. rewrite Nat2Z.id. apply firstn_all. }
  rewrite Tk in H.
  rewrite (grow_at_end (e_cur s) (blen new) (e_msg s)) in H by auto.
  rewrite (grow_at_end (e_cur s) (blen new) (e_used s)) in H by auto.
  rewrite Hc in H.
  assert (Z1 : blen (zeros (blen new)) = blen new) by (apply zeros_blen; lia).
  rewrite <- Z1 in H at 1 3.
  rewrite slice_at_end in H.
  assert (Su : slice (blen (e_msg s)) (blen new) (e_used s ++ zeros (blen new)) = zeros (blen new)).
  { rewrite <- Hc, <- Hu. rewrite <- Z1 at 1. apply slice_at_end. }
  rewrite Z1 in H. rewrite Su in H.
  set (New := masked_write (zeros (blen new)) new mk) in *.
  assert (LNew : blen New = blen new).
  { unfold New, blen. rewrite masked_write_length; unfold blen, zeros in *; rewrite ?repeat_length; lia. }
  set (U := mask_or (zeros (blen new)) mk) in *.
  assert (LU : blen U = blen new).
  { unfold U, zeros. clear -Hm Hn. unfold blen in *.
    assert (G : forall n (k : list Z), List.length k = n -> List.length (mask_or (repeat 0 n) k) = n).
    { induction n as [|n IH]; intros [|x k] Hk; simpl in *; try lia. f_equal. apply IH. lia. }
    rewrite G; lia. }
  injection H as <-. cbn.
  apply splice_at_end. lia.
Qed.


(* writing a value below 2^bl into zeroed bytes through the mask of bl bits: the plain bytes *)
Lemma masked_zero_region raw bl n :
  0 < bl -> bl <= 8 * Z.of_nat n -> 0 <= raw < 2 ^ bl ->
  masked_write (repeat 0 n) (to_be n (raw * 2 ^ 0)) (to_be n ((2 ^ bl - 1) * 2 ^ 0)) = to_be n (raw * 2 ^ 0).
Proof.
  intros Hbl Hsz Hraw.
  assert (HO : bytes_ok (repeat 0 n) = true)
    by (unfold bytes_ok; apply forallb_forall; intros x Hx; apply repeat_spec in Hx; now subst).
  assert (Hn : List.length (repeat 0 n) = n) by apply repeat_length.
  apply nth_ext with (d := 0) (d' := 0).
  - rewrite masked_write_length; rewrite ?to_be_length, ?repeat_length; lia.
  - intros j Hj. rewrite masked_write_length in Hj by (rewrite ?to_be_length, ?repeat_length; lia).
    rewrite repeat_length in Hj.
    pose proof (region_ok (repeat 0 n) raw bl 0 n HO Hn) as OkN.
    apply Z.bits_inj'. intros k Hk.
    destruct (Z.lt_ge_cases k 8) as [K8|K8].
    + rewrite (region_bits (repeat 0 n) raw bl 0 n Hn Hbl ltac:(lia) ltac:(lia) j k Hj ltac:(lia)).
      cbv zeta. rewrite testbit_to_be by lia. rewrite Z.pow_0_r, Z.mul_1_r.
      set (i := 8 * Z.of_nat (n - 1 - j) + k).
      assert (H0 : (0 <=? i) = true) by (apply Z.leb_le; unfold i; lia). rewrite H0. cbn [andb].
      rewrite Z.sub_0_r, Z.add_0_l.
      destruct (i <? bl) eqn:Ei; [reflexivity|]. apply Z.ltb_ge in Ei.
      rewrite nth_repeat. rewrite Z.bits_0. symmetry.
      destruct (Z.eq_dec raw 0) as [->|N]; [apply Z.bits_0|].
      apply Z.bits_above_log2; [lia|]. apply Z.log2_lt_pow2; [lia|].
      eapply Z.lt_le_trans; [apply Hraw | apply Z.pow_le_mono_r; lia].
    + rewrite !byte_high_bits; auto.
      * apply bytes_ok_nth. apply to_be_ok.
      * apply bytes_ok_nth. exact OkN.
Qed.

Lemma rev_repeat0 n : rev (repeat 0 n) = repeat 0 n.
Proof.
  apply nth_ext with (d := 0) (d' := 0); [now rewrite rev_length|].
  intros j Hj. rewrite rev_length, repeat_length in Hj.
  rewrite rev_nth by (rewrite repeat_length; lia). now rewrite !nth_repeat.
Qed.

(* emplacing the value which was read from the (canonical) bytes w writes w *)
Lemma emplace_reproduces s v bl bt en hl w raw :
  at_end s -> 0 < bl -> is_numeric bt && (64 <? bl) = false ->
  bytes_ok w = true -> blen w = nbytes_of bl 0 ->
  be_int (if negb hl && is_numeric bt then rev w else w) = raw -> 0 <= raw < 2 ^ bl ->
  raw_of v bl bt en hl = Ok raw ->
  exists s', emplace_atomic s v bl bt en hl None = Ok s' /\ at_end s' /\ e_msg s' = e_msg s ++ w /\
             e_cur s' = e_cur s + blen w /\ e_warn s' = e_warn s /\ e_origin s' = e_origin s.
Proof.
  intros Hend Hbl Hwide Hok Hlen Hbe Hraw Hro. pose proof Hend as (Hb & Hc & Hu & Hokm).
  destruct (nbytes_pos bl 0 Hbl ltac:(lia)) as [Hn1 Hn2].
  set (n := Z.to_nat (nbytes_of bl 0)).
  assert (Ln : List.length w = n) by (unfold blen in Hlen; lia).
  assert (Ex : exists s', emplace_atomic s v bl bt en hl None = Ok s').
  { unfold emplace_atomic. rewrite Hro. cbn [bind]. replace (bl =? 0) with false by lia.
    rewrite Hwide. rewrite Hb. cbn [Z.eqb negb andb].
    apply emplace_masked_at_end_ok; [now apply at_end_set_bit|].
    destruct (negb hl && is_numeric bt); rewrite ?blen_rev; unfold blen; rewrite !to_be_length; reflexivity. }
  destruct Ex as (s' & Hs'). exists s'. split; [exact Hs'|].
  pose proof Hs' as Hshape. unfold emplace_atomic in Hshape. rewrite Hro in Hshape. cbn [bind] in Hshape.
  replace (bl =? 0) with false in Hshape by lia. rewrite Hwide in Hshape. rewrite Hb in Hshape.
  cbn [Z.eqb negb andb] in Hshape. fold n in Hshape.
  match type of Hshape with emplace_bytes _ ?new (Some ?mk) = _ =>
    assert (Lm : blen mk = blen new)
      by (destruct (negb hl && is_numeric bt); rewrite ?blen_rev; unfold blen; rewrite !to_be_length; reflexivity);
    assert (Lnew : blen new = nbytes_of bl 0)
      by (destruct (negb hl && is_numeric bt); rewrite ?blen_rev; unfold blen; rewrite !to_be_length; unfold n; lia);
    destruct (emplace_masked_at_end (set_bit s 0) new mk s' (at_end_set_bit s Hend) Lm Hshape)
      as (w0 & Em & Lw & Ecur & Ebit & Eused & Ewarn & Eo & _);
    pose proof (emplace_masked_at_end_eq (set_bit s 0) new mk s' (at_end_set_bit s Hend) Lm Hshape) as Eq
  end.
  cbn [set_bit e_msg e_cur e_warn e_origin] in *.
  assert (Ew : e_msg s' = e_msg s ++ w).
  { rewrite Eq. f_equal.
    assert (Z0 : zeros (nbytes_of bl 0) = repeat 0 n) by reflexivity.
    destruct (negb hl && is_numeric bt) eqn:Ef.
    - rewrite blen_rev. unfold blen at 1. rewrite to_be_length. unfold n at 1. rewrite Z2Nat.id by lia. rewrite Z0.
      rewrite <- (rev_repeat0 n) at 1.
      rewrite <- masked_write_rev by (rewrite ?to_be_length, ?repeat_length; lia).
      rewrite masked_zero_region by (try lia; unfold n; lia).
      rewrite Z.pow_0_r, Z.mul_1_r. rewrite <- Hbe. rewrite <- (rev_length w) in Ln. rewrite <- Ln.
      rewrite to_be_be_int by (now rewrite bytes_ok_rev). apply rev_involutive.
    - unfold blen at 1. rewrite to_be_length. unfold n at 1. rewrite Z2Nat.id by lia. rewrite Z0.
      rewrite masked_zero_region by (try lia; unfold n; lia).
      rewrite Z.pow_0_r, Z.mul_1_r. rewrite <- Hbe, <- Ln. now apply to_be_be_int. }
  split; [|split; [exact Ew|split; [|split; [exact Ewarn | exact Eo]]]].
  - repeat split; auto.
    + rewrite Ecur, Ew, blen_app, Hc. lia.
    + rewrite Ew. unfold bytes_ok. rewrite forallb_app. fold (bytes_ok (e_msg s)). fold (bytes_ok w).
      now rewrite Hokm, Hok.
  - lia.
Qed.

(* the slice w of the message which parameter x occupies is canonical for the value vv(x):
   no stray bits above the bit length, and the raw value it holds is the one the encoder
   computes for the decoded value (C03_*_decode_encode: every raw value except the negative
   zeros of 1C / SM) *)
Definition canon (vv : name -> value) (x : fdesc) (w : list Z) : Prop :=
  bytes_ok w = true /\ blen w = fbytes x /\
  let raw := be_int (if negb (f_hl x) && is_numeric (f_bt x) then rev w else w) in
  raw < 2 ^ f_bl x /\
  value_of_raw raw (f_bl x) (f_bt x) (f_en x) (f_hl x) = Ok (vv (fname x)) /\
  raw_of (vv (fname x)) (f_bl x) (f_bt x) (f_en x) (f_hl x) = Ok raw.

Definition sane (vv : name -> value) (x : fdesc) : Prop :=
  0 < f_bl x /\ is_numeric (f_bt x) && (64 <? f_bl x) = false /\
  isinstance_bt (f_pt x) (vv (fname x)) = true /\ isinstance_bt (f_bt x) (vv (fname x)) = true /\
  match f_const x with Some cv => vv (fname x) = cv | None => True end.

Lemma canon_raw_nonneg vv x w : canon vv x w ->
  0 <= be_int (if negb (f_hl x) && is_numeric (f_bt x) then rev w else w).
Proof.
  intros (Hok & _). destruct (negb (f_hl x) && is_numeric (f_bt x)).
  - apply be_int_bounds. now rewrite bytes_ok_rev.
  - now apply be_int_bounds.
Qed.

Lemma canon_fits vv x w : sane vv x -> canon vv x w -> fits x (vv (fname x)).
Proof.
  intros (A & B & C & D & E) Hc. pose proof (canon_raw_nonneg vv x w Hc) as Hnn.
  destruct Hc as (Hok & Hl & Hlt & Hv & Hr).
  repeat split; auto. eexists. split; [exact Hr|]. split; [split; [exact Hnn | exact Hlt] | exact Hv].
Qed.

Section LoopRev.
  Variable kv : list (name * value).
  Variable vv : name -> value.

  Lemma enc_loop_reproduces f n oe : forall fl ws s i,
    at_end s -> Forall2 (fun x w => sane vv x /\ canon vv x w /\
                                    lookup (fname x) kv = (if is_value x then Some (vv (fname x)) else None)) fl ws ->
    exists s', enc_go (S (S f)) kv n oe (map mkp fl) i s = Ok s' /\ at_end s' /\ e_warn s' = e_warn s /\
               e_msg s' = e_msg s ++ concat ws.
  Proof.
    induction fl as [|x fl IH]; intros ws s i Hend HF; inversion HF as [|? w ? ws' (Hs & Hc & Hl) HF']; subst.
    - exists s. cbn [map enc_go concat]. rewrite app_nil_r. auto.
    - set (s0 := if i =? n - 1 then set_eop s oe else s).
      assert (Hend0 : at_end s0) by (unfold s0; destruct (i =? n - 1); auto using at_end_set_eop).
      assert (E0 : e_msg s0 = e_msg s /\ e_warn s0 = e_warn s)
        by (unfold s0; destruct (i =? n - 1); split; reflexivity).
      destruct E0 as (Em0 & Ew0).
      pose proof (canon_raw_nonneg vv x w Hc) as Hnn.
      destruct Hs as (Hbl & Hwide & Hpt & Hbt & Hcst). destruct Hc as (Hok & Hlen & Hlt & Hv & Hr).
      (* the parameter writes w *)
      destruct (emplace_reproduces (set_bit s0 0) (vv (fname x)) (f_bl x) (f_bt x) (f_en x) (f_hl x) w _
                  (at_end_set_bit s0 Hend0) Hbl Hwide Hok Hlen eq_refl (conj Hnn Hlt) Hr)
        as (s1 & He1 & Hend1 & Hm1 & Hc1 & Hw1 & Ho1).
      cbn [set_bit e_msg e_cur e_warn e_origin] in *.
      assert (Hp : enc_param (S (S f)) (mkp x) kv s0 = Ok (set_bit s1 0)).
      { unfold mkp, is_value in *. destruct (f_const x) as [cv|].
        - subst cv. cbn [enc_param]. unfold is_required. cbn [pkind_of negb orb guard bind].
          unfold vget. fold (fname x). rewrite Hl.
          cbn [is_none orb guard bind opt_or0 enc_dct std_apply_mask std_used_mask].
          rewrite He1. reflexivity.
        - cbn [enc_param]. unfold is_required. cbn [pkind_of]. fold (fname x). rewrite Hl. cbn [negb orb guard bind].
          unfold vget. rewrite Hl. rewrite (not_none_of_instance _ _ Hpt). cbn [negb guard bind opt_or0].
          cbn [enc_dop]. cbn [valid_phys]. rewrite Hpt. cbn [guard bind p2i valid_int dct_bt]. rewrite Hbt. cbn [guard bind enc_dct std_apply_mask std_used_mask].
          rewrite He1. rewrite ?(not_none_of_instance _ _ Hpt). reflexivity. }
      assert (Hend1' : at_end (set_bit s1 0)) by now apply at_end_set_bit.
      destruct (IH ws' (set_bit s1 0) (i + 1) Hend1' HF') as (s' & He2 & Hend2 & Hwarn2 & Hm2).
      exists s'. split; [|split; [exact Hend2|split]].
      + cbn [map enc_go]. fold s0. rewrite Hp. cbn [bind]. exact He2.
      + rewrite Hwarn2. cbn [set_bit e_warn]. congruence.
      + rewrite Hm2. cbn [set_bit e_msg concat]. rewrite Hm1, Em0. now rewrite app_assoc.
  Qed.
End LoopRev.

(* decode then encode: a message made of canonical slices decodes to the values and these
   values encode to the message *)
Theorem flat_reencode fl vv ws :
  Forall2 (fun x w => sane vv x /\ canon vv x w) fl ws -> NoDup (map fname fl) ->
  decode_msg (map mkp fl) (concat ws) = Ok (VDict (fvals vv fl)) /\
  encode_msg (map mkp fl) None (VDict (fvals vv (filter is_value fl))) = Ok (concat ws, false).
Proof.
  intros HF ND.
  assert (Hfit : forall x, In x fl -> fits x (vv (fname x))).
  { clear ND. induction HF as [|x w fl ws (Hs & Hc) HF IH]; intros y Hy; [contradiction|].
    destruct Hy as [<-|Hy]; [now apply (canon_fits vv x w) | now apply IH]. }
  destruct (flat_roundtrip fl vv Hfit ND) as (msg & Henc & Hdec & _).
  (* the encoding is the concatenation of the slices *)
  assert (Henc2 : encode_msg (map mkp fl) None (VDict (fvals vv (filter is_value fl))) = Ok (concat ws, false)).
  { set (ps := map mkp fl). set (kv := fvals vv (filter is_value fl)).
    assert (Hfuel : exists k, fuel_of ps = S (S (S k))).
    { unfold fuel_of. exists (4 * dop_size 64 (DStruct ps None) + 5)%nat. lia. }
    destruct Hfuel as (k & Hk).
    set (s0 := set_eop (set_origin (estate0 None) (e_cur (estate0 None))) false).
    assert (Hend0 : at_end s0) by (repeat split; reflexivity).
    assert (HF2 : Forall2 (fun x w => sane vv x /\ canon vv x w /\
                             lookup (fname x) kv = (if is_value x then Some (vv (fname x)) else None)) fl ws).
    { assert (G : forall l lw, Forall2 (fun x w => sane vv x /\ canon vv x w) l lw -> incl l fl ->
                  Forall2 (fun x w => sane vv x /\ canon vv x w /\
                             lookup (fname x) kv = (if is_value x then Some (vv (fname x)) else None)) l lw).
      { induction 1 as [|x w l lw (A & B) H IH]; intros Hi; constructor.
        - split; [exact A|]. split; [exact B|]. apply lookup_filtered; auto. apply Hi. now left.
        - apply IH. intros y Hy. apply Hi. now right. }
      apply G; [exact HF | apply incl_refl]. }
    destruct (enc_loop_reproduces kv vv k (zlen ps) (e_eop (estate0 None)) fl ws s0 0 Hend0 HF2)
      as (s' & He & Hend' & Hwarn & Hm).
    unfold encode_msg. rewrite Hk. cbn [enc_composite].
    replace (own_keys ps) with (@nil name) by (symmetry; apply own_keys_flat). cbn [drop_keys].
    cbn [estate0 e_bit Z.eqb guard bind].
    assert (Hi : incl (filter is_value fl) fl) by (intros y Hy; apply filter_In in Hy; tauto).
    pose proof (known_params vv (filter is_value fl) fl Hi) as Hkp. fold ps in Hkp. fold kv in Hkp. rewrite Hkp.
    cbn [guard bind].
    unfold enc_go in He. fold ps in He. unfold s0 in He. rewrite He. cbn [bind].
    pose proof (keys_flat (S (S k)) fl (set_eop s' false)) as Hkeys. unfold keys_go in Hkeys. fold ps in Hkeys.
    rewrite Hkeys. cbn [bind e_msg e_warn set_origin set_cur set_eop].
    rewrite Hwarn, Hm. reflexivity. }
  split; [|exact Henc2].
  rewrite Henc in Henc2. injection Henc2 as <-. exact Hdec.
Qed.

(* the hypothesis is met by every unsigned integer slice without stray bits *)
Lemma canon_uint vv nm bl hl cst w :
  0 < bl -> bytes_ok w = true -> blen w = nbytes_of bl 0 ->
  be_int (if negb hl && true then rev w else w) < 2 ^ bl ->
  vv nm = VInt (be_int (if negb hl && true then rev w else w)) ->
  canon vv (mkF nm bl BUint None hl BUint cst) w.
Proof.
  intros Hbl Hok Hlen Hlt Hv. unfold canon. cbn [f_bl f_bt f_en f_hl f_name fname fbytes is_numeric].
  split; [exact Hok|]. split; [exact Hlen|]. cbv zeta. split; [exact Hlt|].
  set (raw := be_int (if negb hl && true then rev w else w)) in *.
  assert (Hnn : 0 <= raw).
  { unfold raw. destruct (negb hl && true); [apply be_int_bounds; now rewrite bytes_ok_rev | now apply be_int_bounds]. }
  rewrite Hv. split.
  - reflexivity.
  - apply raw_of_uint; lia.
Qed.

Example reencode_example :
  let fl := [mkF [115] 8 BUint None true BUint (Some (VInt 34)); mkF [112; 50] 12 BUint None false BUint None] in
  let vv := fun nm => if bytes_eqb nm [115] then VInt 34 else VInt 2748 in
  decode_msg (map mkp fl) [34; 188; 10] = Ok (VDict (fvals vv fl)) /\
  encode_msg (map mkp fl) None (VDict (fvals vv (filter is_value fl))) = Ok ([34; 188; 10], false) /\
  (* stray bits above the 12 bit value are not reproduced: the slice BC FA is not canonical *)
  (exists v, decode_msg (map mkp fl) [34; 188; 250] = Ok v /\
             encode_msg (map mkp fl) None (VDict (fvals vv (filter is_value fl))) <> Ok ([34; 188; 250], false)).
Proof.
  cbv zeta. split; [vm_compute; reflexivity|]. split; [vm_compute; reflexivity|].
  eexists. split; [vm_compute; reflexivity|]. vm_compute. discriminate.
Qed.

(* ====================================================================================== *)
(* the wire format (C02 at message level): the PDU of such a message is the concatenation  *)
(* of the raw values, big endian (byte-swapped for little endian numeric objects), each     *)
(* zero-padded at the top to whole bytes                                                    *)
(* ====================================================================================== *)
Definition wire_bytes (x : fdesc) (raw : Z) : list Z :=
  let n := Z.to_nat (fbytes x) in
  if negb (f_hl x) && is_numeric (f_bt x) then rev (to_be n raw) else to_be n raw.

Lemma wire_bytes_canon vv x raw :
  0 < f_bl x -> 0 <= raw < 2 ^ f_bl x ->
  raw_of (vv (fname x)) (f_bl x) (f_bt x) (f_en x) (f_hl x) = Ok raw ->
  value_of_raw raw (f_bl x) (f_bt x) (f_en x) (f_hl x) = Ok (vv (fname x)) ->
  canon vv x (wire_bytes x raw).
Proof.
  intros Hbl Hraw Hr Hv. unfold canon, wire_bytes.
  destruct (nbytes_pos (f_bl x) 0 Hbl ltac:(lia)) as [Hn1 Hn2]. fold (fbytes x) in Hn1, Hn2.
  set (n := Z.to_nat (fbytes x)).
  assert (Hb : 0 <= raw < 256 ^ Z.of_nat n).
  { rewrite pow256. split; [lia|]. eapply Z.lt_le_trans; [apply Hraw|]. apply Z.pow_le_mono_r; unfold n; lia. }
  assert (Hbe : be_int (to_be n raw) = raw) by now apply be_int_to_be.
  destruct (negb (f_hl x) && is_numeric (f_bt x)).
  - rewrite rev_involutive, Hbe. repeat split; auto; try lia.
    + rewrite bytes_ok_rev. apply to_be_ok.
    + rewrite blen_rev. unfold blen. rewrite to_be_length. unfold n. lia.
  - rewrite Hbe. repeat split; auto; try lia.
    + apply to_be_ok.
    + unfold blen. rewrite to_be_length. unfold n. lia.
Qed.

Theorem flat_wire_format fl vv raws :
  Forall2 (fun x raw => sane vv x /\ 0 <= raw < 2 ^ f_bl x /\
                        raw_of (vv (fname x)) (f_bl x) (f_bt x) (f_en x) (f_hl x) = Ok raw /\
                        value_of_raw raw (f_bl x) (f_bt x) (f_en x) (f_hl x) = Ok (vv (fname x))) fl raws ->
  NoDup (map fname fl) ->
  encode_msg (map mkp fl) None (VDict (fvals vv (filter is_value fl))) =
  Ok (concat (map (fun p => wire_bytes (fst p) (snd p)) (combine fl raws)), false).
Proof.
  intros HF ND.
  assert (HF2 : Forall2 (fun x w => sane vv x /\ canon vv x w) fl
                        (map (fun p => wire_bytes (fst p) (snd p)) (combine fl raws))).
  { clear ND. induction HF as [|x raw fl raws (Hs & Hr & Ho & Hv) HF IH]; cbn [combine map]; constructor; [|exact IH].
    split; [exact Hs|]. cbn [fst snd]. apply wire_bytes_canon; auto. apply Hs. }
  exact (proj2 (flat_reencode fl vv _ HF2 ND)).
Qed.

Example wire_example :
  let fl := [mkF [115] 8 BUint None true BUint (Some (VInt 34)); mkF [112; 50] 12 BUint None false BUint None;
             mkF [112; 52] 8 BInt (Some Enc2C) true BInt None] in
  concat (map (fun p => wire_bytes (fst p) (snd p)) (combine fl [34; 2748; 254])) = [34; 188; 10; 254].
Proof. vm_compute. reflexivity. Qed.
