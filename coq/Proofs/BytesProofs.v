(* Lemmas about Base/Bytes.v: integers <-> byte lists, bit addressing. *)
From Coq Require Import ZArith List Bool Lia.
From OV Require Import Base.Bytes.
Import ListNotations.
Open Scope Z_scope.

Ltac Zify.zify_post_hook ::= Z.div_mod_to_equations.

Lemma blen_app (a b : list Z) : blen (a ++ b) = blen a + blen b.
Proof. unfold blen. rewrite app_length. lia. Qed.
Lemma blen_nonneg (a : list Z) : 0 <= blen a.
Proof. unfold blen. lia. Qed.
Lemma blen_rev (a : list Z) : blen (rev a) = blen a.
Proof. unfold blen. now rewrite rev_length. Qed.

Lemma pow256 n : 256 ^ Z.of_nat n = 2 ^ (8 * Z.of_nat n).
Proof. change 256 with (2 ^ 8). rewrite <- Z.pow_mul_r by lia. reflexivity. Qed.

(* ---------- to_le / le_int ---------- *)
Lemma to_le_length n x : List.length (to_le n x) = n.
Proof. revert x; induction n; intros; simpl; auto. Qed.

Lemma to_le_ok n : forall x, bytes_ok (to_le n x) = true.
Proof.
  induction n; intros x; simpl; [reflexivity|]. rewrite IHn, andb_true_r.
  unfold byte_ok. pose proof (Z.mod_pos_bound x 256 ltac:(lia)). apply andb_true_iff. split; lia.
Qed.

Lemma le_int_bounds l : bytes_ok l = true -> 0 <= le_int l < 256 ^ Z.of_nat (List.length l).
Proof.
  induction l as [|b l IH]; intros H; [simpl; lia|].
  cbn [bytes_ok forallb] in H. apply andb_true_iff in H as [Hb Hl]. specialize (IH Hl).
  unfold byte_ok in Hb. apply andb_true_iff in Hb as [H1 H2].
  cbn [le_int List.length]. rewrite Nat2Z.inj_succ, Z.pow_succ_r by lia. lia.
Qed.

Lemma le_int_to_le n : forall x, le_int (to_le n x) = x mod 256 ^ Z.of_nat n.
Proof.
  induction n; intros x.
  - simpl. now rewrite Z.mod_1_r.
  - cbn [to_le le_int]. rewrite IHn. rewrite Nat2Z.inj_succ, Z.pow_succ_r by lia.
    rewrite Z.rem_mul_r by lia. lia.
Qed.

Lemma to_le_le_int l : bytes_ok l = true -> to_le (List.length l) (le_int l) = l.
Proof.
  induction l as [|b l IH]; intros H; [reflexivity|].
  cbn [bytes_ok forallb] in H. apply andb_true_iff in H as [Hb Hl].
  unfold byte_ok in Hb. apply andb_true_iff in Hb as [H1 H2].
  cbn [le_int List.length to_le].
  replace ((b + 256 * le_int l) mod 256) with b by lia.
  replace ((b + 256 * le_int l) / 256) with (le_int l) by lia.
  now rewrite IH.
Qed.

(* bit j*8+k of the integer is bit k of byte j *)
Lemma testbit_to_le n : forall x j k,
  (j < n)%nat -> 0 <= k < 8 ->
  Z.testbit (nth j (to_le n x) 0) k = Z.testbit x (8 * Z.of_nat j + k).
Proof.
  induction n; intros x j k Hj Hk; [lia|]. destruct j as [|j]; cbn [to_le nth].
  - change 256 with (2 ^ 8). rewrite Z.mod_pow2_bits_low by lia. f_equal; lia.
  - rewrite IHn by lia. change 256 with (2 ^ 8). rewrite Z.div_pow2_bits by lia. f_equal; lia.
Qed.

Lemma testbit_le_int l : forall j k,
  bytes_ok l = true -> (j < List.length l)%nat -> 0 <= k < 8 ->
  Z.testbit (le_int l) (8 * Z.of_nat j + k) = Z.testbit (nth j l 0) k.
Proof.
  intros j k H Hj Hk.
  rewrite <- (to_le_le_int l H) at 2. rewrite testbit_to_le by assumption. reflexivity.
Qed.

Lemma testbit_le_int_high l k :
  bytes_ok l = true -> 8 * Z.of_nat (List.length l) <= k -> Z.testbit (le_int l) k = false.
Proof.
  intros H Hk. pose proof (le_int_bounds l H) as B. rewrite pow256 in B.
  destruct (Z.eq_dec (le_int l) 0) as [->|Hne]; [apply Z.bits_0|].
  apply Z.bits_above_log2; [lia|].
  apply Z.log2_lt_pow2; [lia|]. eapply Z.lt_le_trans; [apply B|]. apply Z.pow_le_mono_r; lia.
Qed.

(* ---------- big-endian ---------- *)
Lemma to_be_length n x : List.length (to_be n x) = n.
Proof. unfold to_be. now rewrite rev_length, to_le_length. Qed.

Lemma to_be_ok n x : bytes_ok (to_be n x) = true.
Proof.
  unfold to_be, bytes_ok. apply forallb_forall. intros b Hb. apply in_rev in Hb.
  pose proof (to_le_ok n x) as H. unfold bytes_ok in H. rewrite forallb_forall in H. now apply H.
Qed.

Lemma bytes_ok_rev l : bytes_ok (rev l) = bytes_ok l.
Proof.
  unfold bytes_ok. apply eq_true_iff_eq. rewrite !forallb_forall. split; intros H b Hb; apply H.
  - now apply in_rev in Hb.
  - apply in_rev. exact Hb.
Qed.

Lemma be_int_to_be n x : 0 <= x < 256 ^ Z.of_nat n -> be_int (to_be n x) = x.
Proof.
  intros H. unfold be_int, to_be. rewrite rev_involutive, le_int_to_le. apply Z.mod_small. exact H.
Qed.

Lemma to_be_be_int l : bytes_ok l = true -> to_be (List.length l) (be_int l) = l.
Proof.
  intros H. unfold be_int, to_be. rewrite <- (rev_length l), to_le_le_int.
  - apply rev_involutive.
  - now rewrite bytes_ok_rev.
Qed.

Lemma be_int_bounds l : bytes_ok l = true -> 0 <= be_int l < 256 ^ Z.of_nat (List.length l).
Proof.
  intros H. unfold be_int. rewrite <- (rev_length l). apply le_int_bounds. now rewrite bytes_ok_rev.
Qed.

(* byte j (from the left) of a big-endian list holds bits 8*(n-1-j) .. 8*(n-1-j)+7 *)
Lemma testbit_to_be n x j k :
  (j < n)%nat -> 0 <= k < 8 ->
  Z.testbit (nth j (to_be n x) 0) k = Z.testbit x (8 * Z.of_nat (n - 1 - j) + k).
Proof.
  intros Hj Hk. unfold to_be. rewrite rev_nth by (rewrite to_le_length; lia).
  rewrite to_le_length. rewrite testbit_to_le by lia.
  f_equal. f_equal. f_equal. f_equal. lia.
Qed.

Lemma testbit_be_int l j k :
  bytes_ok l = true -> (j < List.length l)%nat -> 0 <= k < 8 ->
  Z.testbit (be_int l) (8 * Z.of_nat (List.length l - 1 - j) + k) = Z.testbit (nth j l 0) k.
Proof.
  intros H Hj Hk. unfold be_int. rewrite testbit_le_int.
  - rewrite rev_nth by lia. f_equal. f_equal. lia.
  - now rewrite bytes_ok_rev.
  - rewrite rev_length. lia.
  - exact Hk.
Qed.

(* every bit position below 8n decomposes uniquely into (byte from the left, bit) *)
Lemma bit_decompose n i :
  0 <= i < 8 * Z.of_nat n ->
  exists j k, (j < n)%nat /\ 0 <= k < 8 /\ i = 8 * Z.of_nat (n - 1 - j) + k.
Proof.
  intros H. exists (n - 1 - Z.to_nat (i / 8))%nat, (i mod 8).
  pose proof (Z.mod_pos_bound i 8 ltac:(lia)). pose proof (Z.div_mod i 8 ltac:(lia)).
  assert (0 <= i / 8 < Z.of_nat n) by (split; [apply Z.div_pos; lia | apply Z.div_lt_upper_bound; lia]).
  repeat split; try lia.
Qed.
