(* The keys of a composite object are its own (fix commit "items of a field shared the values of their length- and table
   keys"): before it encodes its parameters, enc_composite forgets what was determined for LENGTH-KEYs named like its own
   -- and nothing else.  The example is the situation of the defect: field items which carry their own LENGTH-KEY and
   differ in length. *)
From Coq Require Import ZArith List Bool Lia.
From OV Require Import Base.Bytes Base.Wire Model.Codec Proofs.FlatProofs.
Import ListNotations.
Open Scope Z_scope.

Lemma drop_keys_rest names s :
  e_msg (drop_keys names s) = e_msg s /\ e_used (drop_keys names s) = e_used s /\
  e_origin (drop_keys names s) = e_origin s /\ e_cur (drop_keys names s) = e_cur s /\
  e_bit (drop_keys names s) = e_bit s /\ e_eop (drop_keys names s) = e_eop s /\
  e_keypos (drop_keys names s) = e_keypos s /\ e_req (drop_keys names s) = e_req s /\
  e_warn (drop_keys names s) = e_warn s.
Proof. destruct names; cbn; repeat split. Qed.

Lemma lookup_filter_out (names : list name) nm (l : list (name * Z)) :
  In nm names -> lookup nm (filter (fun kv => negb (existsb (bytes_eqb (fst kv)) names)) l) = None.
Proof.
  intros Hin. induction l as [|[k v] l IH]; [reflexivity|]. cbn [filter fst].
  destruct (existsb (bytes_eqb k) names) eqn:E; cbn [negb]; [exact IH|].
  cbn [lookup]. destruct (bytes_eqb nm k) eqn:Ek; [|exact IH].
  apply bytes_eqb_eq in Ek. subst k.
  assert (existsb (bytes_eqb nm) names = true) as X; [|congruence].
  apply existsb_exists. exists nm. split; [exact Hin | now apply bytes_eqb_eq].
Qed.

Lemma lookup_filter_in (names : list name) nm (l : list (name * Z)) :
  ~ In nm names -> lookup nm (filter (fun kv => negb (existsb (bytes_eqb (fst kv)) names)) l) = lookup nm l.
Proof.
  intros Hn. induction l as [|[k v] l IH]; [reflexivity|]. cbn [filter fst].
  destruct (existsb (bytes_eqb k) names) eqn:E; cbn [negb lookup].
  - destruct (bytes_eqb nm k) eqn:Ek; [|exact IH].
    apply bytes_eqb_eq in Ek. subst k. exfalso. apply existsb_exists in E as (x & Hx & Ex).
    apply bytes_eqb_eq in Ex. subst x. now apply Hn.
  - destruct (bytes_eqb nm k); [reflexivity | exact IH].
Qed.

(* the object forgets the values of keys named like its own ... *)
Theorem own_keys_forgotten ps s nm :
  In nm (own_keys ps) -> lookup nm (e_lkeys (drop_keys (own_keys ps) s)) = None.
Proof.
  intros Hin. destruct (own_keys ps) as [|n0 ns] eqn:E; [contradiction|].
  cbn [drop_keys set_lkeys e_lkeys]. now apply lookup_filter_out.
Qed.

(* ... and keeps every other one (a key of an enclosing object which an object inside uses) *)
Theorem other_keys_kept ps s nm :
  ~ In nm (own_keys ps) -> lookup nm (e_lkeys (drop_keys (own_keys ps) s)) = lookup nm (e_lkeys s).
Proof.
  intros Hn. destruct (own_keys ps) as [|n0 ns] eqn:E; [reflexivity|].
  cbn [drop_keys set_lkeys e_lkeys]. now apply lookup_filter_in.
Qed.

(* which names these are *)
Theorem own_keys_spec ps nm :
  In nm (own_keys ps) <-> exists p d, In p ps /\ pkind_of p = KLenKey d /\ pname p = nm.
Proof.
  unfold own_keys. rewrite in_flat_map. split.
  - intros (p & Hp & Hin). destruct (pkind_of p) eqn:E; try contradiction.
    destruct Hin as [<-|[]]. eauto.
  - intros (p & d & Hp & Hk & <-). exists p. split; [exact Hp|]. rewrite Hk. now left.
Qed.

(* field items with their own LENGTH-KEY: items of different lengths are encoded, the PDU is read back, and the values
   read back (keys included) encode to the same PDU *)
Definition ks_u8 := DSimple (Std BUint None true 8 None) CIdent BUint.
Definition ks_item := DStruct [P [108] None None (KLenKey ks_u8);
                               P [98] None None (KValue (DSimple (ParamLen BBytes None true [108]) CIdent BBytes) None)] None.
Definition ks_msg := [P [115] None None (KCoded (Std BUint None true 8 None) (VInt 34));
                      P [102] None None (KValue (DEop ks_item) None)].
Example keyed_items_example :
  let item b := VDict [([98], VBytes b)] in
  let full l b := VDict [([108], VInt l); ([98], VBytes b)] in
  let pdu := [34; 16; 120; 121; 8; 122; 0; 24; 117; 118; 119] in
  encode_msg ks_msg None (VDict [([102], VList [item [120; 121]; item [122]; item []; item [117; 118; 119]])]) = Ok (pdu, false) /\
  decode_msg ks_msg pdu =
    Ok (VDict [([115], VInt 34); ([102], VList [full 16 [120; 121]; full 8 [122]; full 0 []; full 24 [117; 118; 119]])]) /\
  encode_msg ks_msg None (VDict [([102], VList [full 16 [120; 121]; full 8 [122]; full 0 []; full 24 [117; 118; 119]])]) = Ok (pdu, false).
Proof. vm_compute. repeat split. Qed.
