(* C01 / C02 for multiplexers (MUX): an unsigned switch key of any bit length up to 64 at the start of the multiplexer,
   the content of the selected case directly behind it (BYTE-POSITION = size of the key).  Selecting a case by
   its name writes the lower limit of the case as key followed by the bytes of the case's structure; decoding reads the
   key, finds the case (the first one whose closed key range holds the key) and returns its name with the values of the
   structure.  A further good member for FieldProofs.v: multiplexers nest in structures and fields, and the case
   structures may hold any good members (multiplexers included). *)
From Coq Require Import ZArith List Bool Lia.
From OV Require Import Base.Bytes Base.Wire Generated Model.Str Model.Codec
     Proofs.BytesProofs Proofs.AtomicProofs Proofs.CodecProps Proofs.FlatProofs Proofs.TreeProofs Proofs.TreeWireProofs
     Proofs.FieldProofs.
Import ListNotations.
Open Scope Z_scope.

Definition key_dop (kbl : Z) (hl : bool) : dop := DSimple (Std BUint None hl kbl None) CIdent BUint.
Definition key_desc (kbl : Z) (hl : bool) : fdesc := mkF [] kbl BUint None hl BUint None.
Definition key_bytes (kbl : Z) (hl : bool) (key : Z) : list Z := wire_bytes (key_desc kbl hl) key.

Definition mux_param (nm : name) (kbl : Z) (hl : bool) (cases : list mcase) (dflt : option mcase) : param :=
  P nm None None (KValue (DMux (nbytes_of kbl 0) 0 0 (key_dop kbl hl) cases dflt) None).

(* ---------- unfolding lemmas (one step of the fuelled recursion, inner calls left folded) ---------- *)
Lemma enc_dop_mux f bp kb kbit kd cases dflt v s :
  enc_dop (S f) (DMux bp kb kbit kd cases dflt) v s =
  (do _ <- guard (e_bit s =? 0) ERej;
   let orig_origin := e_origin s in
   let s := set_origin s (e_cur s) in
   do sc <- match v with
            | VList [spec; cv] => Ok (spec, cv)
            | VDict [(k, cv)] => Ok (VStr k, cv)
            | _ => Err ERej
            end;
   let '(spec, cv) := sc in
   do sel <- match spec with
             | VStr nm =>
               match filter (fun c => bytes_eqb (mc_name c) nm) cases with
               | [] => match dflt with Some c => Ok (mc_struct c, 0) | None => Err ERej end
               | [c] => Ok (mc_struct c, mc_lo c)
               | _ => Err ERej
               end
             | VInt n =>
               match filter (mc_applies n) cases with
               | [] => match dflt with Some c => Ok (mc_struct c, n) | None => Err ERej end
               | c :: _ => Ok (mc_struct c, n)
               end
             | VNone => match dflt with Some c => Ok (mc_struct c, 0) | None => Err ERej end
             | _ => Err ERej
             end;
   let '(st, key) := sel in
   let s := set_bit (set_cur s (e_origin s + kb)) kbit in
   do s1 <- enc_dop f kd (VInt key) s;
   let s1 := set_bit s1 0 in
   do s2 <- match st with
            | Some sd => do s3 <- enc_dop f sd cv (set_cur s1 (e_origin s1 + bp));
                         Ok (set_cur s3 (Z.max (e_cur s3) (e_cur s1)))
            | None => Ok s1
            end;
   Ok (set_origin s2 orig_origin)).
Proof. reflexivity. Qed.

Lemma dec_dop_mux f bp kb kbit kd cases dflt s :
  dec_dop (S f) (DMux bp kb kbit kd cases dflt) s =
  (let orig_origin := d_origin s in
   let s := dset_origin s (d_cur s) in
   let s := dset_bit (dset_cur s (d_origin s + kb)) kbit in
   do ks <- dec_dop f kd s;
   let '(kv, s1) := ks in
   let s1 := dset_bit s1 0 in
   match kv with
   | VInt key =>
     match (match find (mc_applies key) cases with Some c => Some c | None => dflt end) with
     | Some c =>
       do r <- match mc_struct c with
               | Some sd => do r' <- dec_dop f sd (dset_cur s1 (d_origin s1 + bp));
                            Ok (fst r', dset_cur (snd r') (Z.max (d_cur (snd r')) (d_cur s1)))
               | None => Ok (VDict [], s1)
               end;
       Ok (VList [VStr (mc_name c); fst r], dset_origin (snd r) orig_origin)
     | None => Err EDecode
     end
   | _ => Err EOdx
   end).
Proof. reflexivity. Qed.

Lemma enc_dop_struct f ps v s : enc_dop (S f) (DStruct ps None) v s = (do s1 <- enc_composite f ps v s; Ok s1).
Proof. reflexivity. Qed.
Lemma dec_dop_struct f ps s :
  dec_dop (S f) (DStruct ps None) s = (do vs <- dec_composite f ps s; let '(v, s1) := vs in Ok (v, s1)).
Proof. reflexivity. Qed.

(* ---------- the switch key: written as its canonical bytes, read back ---------- *)
Lemma key_rt kbl hl key f s :
  0 < kbl <= 64 -> 0 <= key < 2 ^ kbl -> at_end s ->
  exists s1,
    enc_dop (S f) (key_dop kbl hl) (VInt key) s = Ok s1 /\ at_end s1 /\
    e_msg s1 = e_msg s ++ key_bytes kbl hl key /\ e_cur s1 = e_cur s + nbytes_of kbl 0 /\
    e_warn s1 = e_warn s /\ e_origin s1 = e_origin s /\
    forall f' r o lk, dec_dop (S f') (key_dop kbl hl) (mkD (e_msg s1 ++ r) o (e_cur s) 0 lk)
                      = Ok (VInt key, mkD (e_msg s1 ++ r) o (e_cur s1) 0 lk).
Proof.
  intros Hbl Hkey Hend.
  assert (Hwide : is_numeric BUint && (64 <? kbl) = false).
  { cbn [is_numeric andb]. apply Z.ltb_ge. lia. }
  assert (Hcod : codable (VInt key) kbl BUint None hl) by (apply codable_uint; lia).
  destruct (emplace_val_at_end s (VInt key) kbl BUint None hl Hend ltac:(lia) Hwide Hcod)
    as (s1 & w0 & He & Hend1 & Hm0 & Hl0 & Hc1 & Hw1 & Ho1 & _ & _ & _ & _ & Hread).
  (* the bytes are the canonical ones *)
  set (vv := fun _ : name => VInt key).
  assert (Hcan : canon vv (key_desc kbl hl) (key_bytes kbl hl key)).
  { unfold key_bytes. apply wire_bytes_canon; cbn [key_desc f_bl f_bt f_en f_hl fname f_name]; try lia.
    - unfold vv. apply raw_of_uint; lia.
    - destruct Hcod as (raw & Hr & Hz & Hv). rewrite raw_of_uint in Hr by lia. injection Hr as <-. exact Hv. }
  pose proof (canon_raw_nonneg vv _ _ Hcan) as Hnn.
  destruct Hcan as (Hok & Hlen & Hlt & Hv & Hr).
  cbn [key_desc f_bl f_bt f_en f_hl fname f_name fbytes] in Hok, Hlen, Hlt, Hv, Hr, Hnn. unfold vv in Hr.
  destruct (emplace_reproduces s (VInt key) kbl BUint None hl (key_bytes kbl hl key) _
              Hend ltac:(lia) Hwide Hok Hlen eq_refl (conj Hnn Hlt) Hr)
    as (s2 & He2 & _ & Hm2 & _).
  rewrite He in He2. injection He2 as <-.
  exists s1. split; [|split; [exact Hend1|split; [exact Hm2|split; [exact Hc1|split; [exact Hw1|split; [exact Ho1|]]]]]].
  - unfold key_dop. cbn [enc_dop valid_phys isinstance_bt guard bind p2i valid_int dct_bt enc_dct std_apply_mask std_used_mask].
    exact He.
  - intros f' r o lk. unfold key_dop. cbn [dec_dop dec_dct]. rewrite Hread.
    cbn [bind valid_int dct_bt isinstance_bt i2p]. reflexivity.
Qed.

(* ---------- a case selected by name ---------- *)
Section Case.
Variables (k : nat) (nm : name) (kbl : Z) (hl : bool) (cases : list mcase) (dflt : option mcase) (c : mcase) (rs : list rmem).
Hypothesis Hbl : 0 < kbl <= 64.
Hypothesis Hname : filter (fun c' => bytes_eqb (mc_name c') (mc_name c)) cases = [c].
Hypothesis Hfirst : find (mc_applies (mc_lo c)) cases = Some c.
Hypothesis Hkey : 0 <= mc_lo c < 2 ^ kbl.
Hypothesis Hstruct : mc_struct c = Some (DStruct (map m_p (rms rs)) None).
Hypothesis Hg : forall x, In x rs -> rgood k x.
Hypothesis ND : NoDup (map m_name (rms rs)).

Let p := mux_param nm kbl hl cases dflt.
Let vin := Some (VList [VStr (mc_name c); VDict (in_dict (rms rs))]).
Let vout := VList [VStr (mc_name c); VDict (out_dict (rms rs))].
Let wbytes := key_bytes kbl hl (mc_lo c) ++ rbytes rs.

Lemma mux_core fe fd : (k <= fe)%nat -> (k <= fd)%nat -> forall s kv, at_end s -> lookup nm kv = vin ->
  exists s', enc_param (S (S (S (S fe)))) p kv s = Ok s' /\ at_end s' /\ e_warn s' = e_warn s /\ e_origin s' = e_origin s /\
             e_msg s' = e_msg s ++ wbytes /\
             forall r o lk, dec_param (S (S (S (S fd)))) p (mkD (e_msg s' ++ r) o (e_cur s) 0 lk) =
                            Ok (vout, mkD (e_msg s' ++ r) o (e_cur s') 0 lk).
Proof.
  intros Hfe Hfd s kv Hend Hl.
  pose proof Hend as (Hbit & Hcur & Hused & Hokm).
  (* the state in which the key is written: origin at the multiplexer, cursor unchanged *)
  set (sa := set_bit (set_cur (set_origin (set_bit s 0) (e_cur s)) (e_cur s + 0)) 0).
  assert (Henda : at_end sa).
  { unfold sa, at_end. cbn [set_bit set_cur set_origin e_bit e_cur e_msg e_used]. repeat split; auto; lia. }
  destruct (key_rt kbl hl (mc_lo c) (S fe) sa Hbl Hkey Henda) as (s1 & He1 & Hend1 & Hm1 & Hc1 & Hw1 & Ho1 & Hd1).
  assert (Hmsa : e_msg sa = e_msg s) by reflexivity.
  assert (Hcsa : e_cur sa = e_cur s) by (unfold sa; cbn [set_bit set_cur e_cur]; lia).
  assert (Hosa : e_origin sa = e_cur s) by reflexivity.
  assert (Hwsa : e_warn sa = e_warn s) by reflexivity.
  (* the state in which the content is written: cursor at BYTE-POSITION = behind the key *)
  set (sb := set_cur (set_bit s1 0) (e_origin s1 + nbytes_of kbl 0)).
  assert (Hendb : at_end sb).
  { pose proof Hend1 as (A & B & C & D). unfold sb, at_end. cbn [set_bit set_cur e_bit e_cur e_msg e_used e_origin].
    rewrite Ho1, Hosa. repeat split; auto; lia. }
  destruct (composite_rt k rs fe fd sb Hg ND Hfe Hfd Hendb) as (s2 & He2 & Hend2 & Hw2 & Ho2 & Hm2 & Hd2).
  assert (Hmsb : e_msg sb = e_msg s1) by reflexivity.
  assert (Hcsb : e_cur sb = e_cur s1).
  { unfold sb. cbn [set_bit set_cur e_cur e_origin]. rewrite Ho1, Hosa. lia. }
  assert (Hmax : Z.max (e_cur s2) (e_cur s1) = e_cur s2).
  { pose proof Hend2 as (_ & B2 & _). pose proof Hend1 as (_ & B1 & _). rewrite B2, B1, Hm2, Hmsb, blen_app.
    pose proof (blen_nonneg (rbytes rs)). lia. }
  exists (set_bit (set_origin (set_cur s2 (Z.max (e_cur s2) (e_cur s1))) (e_origin s)) 0).
  split; [|split; [|split; [|split; [|split]]]].
  - unfold p, mux_param. cbn [enc_param]. unfold is_required. cbn [pkind_of]. unfold vin in Hl. rewrite Hl.
    cbn [negb orb guard bind]. unfold vget. rewrite Hl. cbn [is_none negb guard bind opt_or0].
    rewrite enc_dop_mux. cbn [set_bit e_bit]. cbn [Z.eqb guard bind].
    rewrite Hname. cbn [bind].
    cbn [e_cur e_origin set_origin set_bit].
    fold sa. rewrite He1. cbn [bind]. rewrite Hstruct.
    fold sb. rewrite enc_dop_struct. rewrite He2. cbn [bind]. cbn [set_bit e_cur]. reflexivity.
  - pose proof Hend2 as (A & B & C & D). unfold at_end. cbn [set_bit set_origin set_cur e_bit e_cur e_msg e_used]. rewrite Hmax. repeat split; auto.
  - cbn [set_bit set_origin set_cur e_warn]. rewrite Hw2. unfold sb. cbn [set_cur set_bit e_warn]. rewrite Hw1. exact Hwsa.
  - reflexivity.
  - cbn [set_bit set_origin set_cur e_msg]. rewrite Hm2, Hmsb, Hm1, Hmsa. unfold wbytes. now rewrite app_assoc.
  - intros r o lk. unfold p, mux_param. cbn [dec_param]. cbn [opt_or0].
    cbn [set_bit set_origin set_cur e_msg e_cur].
    change (dset_bit (mkD (e_msg s2 ++ r) o (e_cur s) 0 lk) 0) with (mkD (e_msg s2 ++ r) o (e_cur s) 0 lk).
    rewrite dec_dop_mux. unfold dset_origin, dset_cur, dset_bit. cbn [d_origin d_cur d_msg d_bit d_lkeys].
    replace (e_cur s + 0) with (e_cur sa) by lia.
    assert (R1 : e_msg s2 ++ r = e_msg s1 ++ (rbytes rs ++ r)) by (rewrite Hm2, Hmsb; now rewrite <- app_assoc).
    rewrite R1. rewrite Hd1. cbn [bind]. rewrite <- R1.
    cbn [d_msg d_origin d_cur d_bit d_lkeys].
    rewrite Hfirst. rewrite Hstruct.
    replace (e_cur s + nbytes_of kbl 0) with (e_cur sb) by (rewrite Hcsb, Hc1, Hcsa; reflexivity).
    rewrite dec_dop_struct. rewrite Hd2. cbn [bind fst snd d_msg d_origin d_cur d_bit d_lkeys].
    reflexivity.
Qed.

Theorem mux_case_rt :
  appends_ge (4 + k) (4 + k) p vin vout /\ writes_ge (4 + k) p vin wbytes /\ no_lenkey p.
Proof.
  split; [|split].
  - intros fe fd Hfe Hfd s kv Hend Hl. destruct fe as [|[|[|[|fe]]]]; try lia. destruct fd as [|[|[|[|fd]]]]; try lia.
    destruct (mux_core fe fd ltac:(lia) ltac:(lia) s kv Hend Hl) as (s' & A & B & C & D & E & F).
    exists s', wbytes. repeat split; auto; apply B.
  - intros fe Hfe s kv Hend Hl. destruct fe as [|[|[|[|fe]]]]; try lia.
    destruct (mux_core fe k ltac:(lia) (le_n k) s kv Hend Hl) as (s' & A & B & C & D & E & _).
    exists s'. repeat split; auto; apply B.
  - exact I.
Qed.
End Case.

Definition mux_rm (nm : name) (kbl : Z) (hl : bool) (cases : list mcase) (dflt : option mcase) (c : mcase) (rs : list rmem) : rmem :=
  mkRM (mkM (mux_param nm kbl hl cases dflt) (Some (VList [VStr (mc_name c); VDict (in_dict (rms rs))]))
            (VList [VStr (mc_name c); VDict (out_dict (rms rs))]))
       (key_bytes kbl hl (mc_lo c) ++ rbytes rs).

Lemma mux_rgood k nm kbl hl cases dflt c rs :
  0 < kbl <= 64 ->
  filter (fun c' => bytes_eqb (mc_name c') (mc_name c)) cases = [c] ->
  find (mc_applies (mc_lo c)) cases = Some c ->
  0 <= mc_lo c < 2 ^ kbl ->
  mc_struct c = Some (DStruct (map m_p (rms rs)) None) ->
  (forall x, In x rs -> rgood k x) -> NoDup (map m_name (rms rs)) ->
  rgood (4 + k) (mux_rm nm kbl hl cases dflt c rs).
Proof.
  intros H1 H2 H3 H4 H5 H6 H7. unfold rgood, mux_rm. cbn [r_m r_w m_p m_in m_out].
  exact (mux_case_rt k nm kbl hl cases dflt c rs H1 H2 H3 H4 H5 H6 H7).
Qed.

(* a request: service id, a multiplexer with an 8 bit key and two cases (0x10..0x1F: {a: 8 bit, b: 16 bit};
   0x20: {c: 8 bit}), a trailing byte.  Both cases, selected by name. *)
Example mux_example :
  let u8 nm := mkF nm 8 BUint None true BUint None in
  let u16 nm := mkF nm 16 BUint None true BUint None in
  let vv (z : Z) := fun _ : name => VInt z in
  let in1 := [leaf_rm (u8 [97]) (vv 7) (wire_bytes (u8 [97]) 7); leaf_rm (u16 [98]) (vv 258) (wire_bytes (u16 [98]) 258)] in
  let in2 := [leaf_rm (u8 [99]) (vv 200) (wire_bytes (u8 [99]) 200)] in
  let c1 := MC [120] 16 31 (Some (DStruct (map m_p (rms in1)) None)) in
  let c2 := MC [121] 32 32 (Some (DStruct (map m_p (rms in2)) None)) in
  let mk c rs := [leaf_rm (mkF [115] 8 BUint None true BUint (Some (VInt 34))) (vv 34) [34];
                  mux_rm [109] 8 true [c1; c2] None c rs;
                  leaf_rm (u8 [122]) (vv 9) [9]] in
  rbytes (mk c1 in1) = [34; 16; 7; 1; 2; 9] /\ rbytes (mk c2 in2) = [34; 32; 200; 9] /\
  encode_msg (map m_p (rms (mk c1 in1))) None (VDict (in_dict (rms (mk c1 in1)))) = Ok (rbytes (mk c1 in1), false) /\
  decode_msg (map m_p (rms (mk c1 in1))) (rbytes (mk c1 in1)) = Ok (VDict (out_dict (rms (mk c1 in1)))) /\
  encode_msg (map m_p (rms (mk c2 in2))) None (VDict (in_dict (rms (mk c2 in2)))) = Ok (rbytes (mk c2 in2), false) /\
  decode_msg (map m_p (rms (mk c2 in2))) (rbytes (mk c2 in2)) = Ok (VDict (out_dict (rms (mk c2 in2)))).
Proof. cbv zeta. repeat split; vm_compute; reflexivity. Qed.

(* the premises of mux_rgood are met by that example (and the message's fuel suffices) *)
Example mux_premises :
  let u8 nm := mkF nm 8 BUint None true BUint None in
  let u16 nm := mkF nm 16 BUint None true BUint None in
  let vv (z : Z) := fun _ : name => VInt z in
  let in1 := [leaf_rm (u8 [97]) (vv 7) (wire_bytes (u8 [97]) 7); leaf_rm (u16 [98]) (vv 258) (wire_bytes (u16 [98]) 258)] in
  let in2 := [leaf_rm (u8 [99]) (vv 200) (wire_bytes (u8 [99]) 200)] in
  let c1 := MC [120] 16 31 (Some (DStruct (map m_p (rms in1)) None)) in
  let c2 := MC [121] 32 32 (Some (DStruct (map m_p (rms in2)) None)) in
  let rs := [leaf_rm (mkF [115] 8 BUint None true BUint (Some (VInt 34))) (vv 34) (wire_bytes (mkF [115] 8 BUint None true BUint (Some (VInt 34))) 34);
             mux_rm [109] 8 true [c1; c2] None c1 in1;
             leaf_rm (u8 [122]) (vv 9) (wire_bytes (u8 [122]) 9)] in
  (forall x, In x rs -> rgood 6 x) /\ NoDup (map m_name (rms rs)) /\ (6 + 1 <= fuel_of (map m_p (rms rs)))%nat.
Proof.
  intros u8 u16 vv in1 in2 c1 c2 rs.
  split; [|split].
  - intros x [<-|[<-|[<-|[]]]].
    + eapply rgood_weaken; [apply uint_leaf_rgood; cbn; try lia; reflexivity | lia].
    + change 6%nat with (4 + 2)%nat. apply mux_rgood.
      * lia.
      * vm_compute. reflexivity.
      * vm_compute. reflexivity.
      * cbn. lia.
      * reflexivity.
      * intros y [<-|[<-|[]]]; apply uint_leaf_rgood; cbn; try lia; exact I.
      * repeat constructor; cbn; intuition discriminate.
    + eapply rgood_weaken; [apply uint_leaf_rgood; cbn; try lia; exact I | lia].
  - repeat constructor; cbn; intuition discriminate.
  - vm_compute. lia.
Qed.
