(* Further properties of the atomic codec layer: totality of extraction (C05),
   cursor advance = static length (C08), overlap flag (C02), re-encoding (C03). *)
From Coq Require Import ZArith List Bool Lia.
From OV Require Import Base.Bytes Base.Wire Model.Str Model.Codec Proofs.BytesProofs Proofs.AtomicProofs.
Import ListNotations.
Open Scope Z_scope.

Ltac Zify.zify_post_hook ::= Z.div_mod_to_equations.

(* base type / encoding combinations the ODX specification admits (and the model covers) *)
Definition wf_atom (bt : btype) (en : option enc) (hl : bool) : bool :=
  match bt with
  | BInt => match en with None | Some Enc1C | Some Enc2C | Some EncSM => true | _ => false end
  | BUint | BBytes => match en with None | Some EncNONE | Some EncBcdP | Some EncBcdUp => true | _ => false end
  | BAscii | BUtf8 | BUni => match string_codec bt en hl with Some _ => true | None => false end
  | _ => false
  end.

Definition dec_outcome_ok {A} (r : res A) : Prop :=
  match r with Ok _ => True | Err EDecode => True | Err EMismatch => True | _ => False end.

(* C05 at the atomic level: extraction from ANY byte string, at any cursor, bit
   position and bit length returns a value or raises DecodeError *)
Theorem extract_total s bl bt en hl :
  wf_atom bt en hl = true -> dec_outcome_ok (extract_atomic s bl bt en hl).
Proof.
  intros W. unfold extract_atomic.
  destruct (bl =? 0); [exact I|].
  destruct (blen (d_msg s) <? d_cur s + nbytes_of bl (d_bit s)); [exact I|].
  destruct (negb (is_numeric bt) && negb (bl mod 8 =? 0)); [exact I|].
  destruct (is_numeric bt && (64 <? bl)); [exact I|].
  set (raw := (_ / _) mod _).
  unfold value_of_raw, wf_atom in *.
  destruct bt; try discriminate W.
  - destruct en as [[]|]; try discriminate W; exact I.
  - destruct en as [[]|]; try discriminate W; exact I.
  - destruct (string_codec BUni en hl); [|discriminate W]. cbn [bind]. destruct (str_dec _ _); exact I.
  - destruct en as [[]|]; try discriminate W; exact I.
  - destruct (string_codec BAscii en hl); [|discriminate W]. cbn [bind]. destruct (str_dec _ _); exact I.
  - destruct (string_codec BUtf8 en hl); [|discriminate W]. cbn [bind]. destruct (str_dec _ _); exact I.
Qed.

(* a PDU which ends before the object is rejected, never completed with invented bits *)
Theorem extract_truncated s bl bt en hl :
  bl <> 0 -> blen (d_msg s) < d_cur s + nbytes_of bl (d_bit s) ->
  extract_atomic s bl bt en hl = Err EDecode.
Proof.
  intros Hbl H. unfold extract_atomic.
  replace (bl =? 0) with false by lia.
  now replace (blen (d_msg s) <? d_cur s + nbytes_of bl (d_bit s)) with true by lia.
Qed.

(* C04: rejections of the atomic encoder are always the library's own error class *)
Theorem raw_of_rejects_properly v bl bt en hl e :
  bt <> BF32 -> bt <> BF64 -> raw_of v bl bt en hl = Err e -> e = ERej.
Proof.
  intros F1 F2 H. unfold raw_of in H.
  destruct bt; try congruence; cbv zeta in H;
    repeat (match type of H with
            | context [match ?x with _ => _ end] => destruct x eqn:?
            | context [if ?c then _ else _] => destruct c eqn:?
            end; try discriminate; cbv zeta in H);
    congruence.
Qed.

(* C03: unsigned and byte-field raw values re-encode to themselves *)
Theorem uint_decode_encode raw bl en hl z :
  0 <= bl -> 0 <= raw < 2 ^ bl -> (en = None \/ en = Some EncNONE) ->
  value_of_raw raw bl BUint en hl = Ok (VInt z) -> raw_of (VInt z) bl BUint en hl = Ok raw.
Proof.
  intros Hbl Hraw Hen H. unfold value_of_raw in H. unfold raw_of.
  assert (B : (bl <? bit_len raw) = false) by (apply Z.ltb_ge, bit_len_le; lia).
  destruct Hen as [-> | ->]; injection H as <-; replace (raw <? 0) with false by lia; now rewrite B.
Qed.

Theorem bytes_decode_encode raw bl en hl b :
  0 <= bl -> bl mod 8 = 0 -> 0 <= raw < 2 ^ bl ->
  value_of_raw raw bl BBytes en hl = Ok (VBytes b) -> raw_of (VBytes b) bl BBytes en hl = Ok raw.
Proof.
  intros Hbl Hm Hraw H. unfold value_of_raw in H. unfold raw_of.
  assert (K : b = to_be (Z.to_nat ((bl + 7) / 8)) raw ->
              (if 8 * blen b =? bl then Ok (be_int b) else Err ERej) = Ok raw).
  { intros ->. unfold blen. rewrite to_be_length.
    assert (E : 8 * Z.of_nat (Z.to_nat ((bl + 7) / 8)) = bl) by lia.
    rewrite E, Z.eqb_refl.
    rewrite be_int_to_be; [reflexivity|]. rewrite pow256, E. exact Hraw. }
  destruct en as [[]|]; try discriminate; injection H as <-; now apply K.
Qed.

(* C02: the overlap flag of a masked write is raised exactly when some bit is
   both already used and claimed by the new object *)
Lemma land_nonzero_bit x m : 0 <= x -> 0 <= m ->
  (Z.land x m =? 0) = false <-> exists k, 0 <= k /\ Z.testbit x k = true /\ Z.testbit m k = true.
Proof.
  intros Hx Hm. split.
  - intros H. apply Z.eqb_neq in H.
    assert (P : 0 < Z.land x m) by (pose proof (proj2 (Z.land_nonneg x m) (or_introl Hx)); lia).
    exists (Z.log2 (Z.land x m)). pose proof (Z.bit_log2 _ P) as B.
    rewrite Z.land_spec in B. apply andb_true_iff in B. split; [apply Z.log2_nonneg | exact B].
  - intros (k & Hk & B1 & B2). apply Z.eqb_neq. intros E.
    assert (Z.testbit (Z.land x m) k = true) by (rewrite Z.land_spec, B1, B2; reflexivity).
    rewrite E, Z.bits_0 in H. discriminate.
Qed.

Theorem clash_iff : forall U M,
  List.length U = List.length M -> bytes_ok U = true -> bytes_ok M = true ->
  (mask_clash U M = true <->
   exists j k, (j < List.length U)%nat /\ 0 <= k /\
               Z.testbit (nth j U 0) k = true /\ Z.testbit (nth j M 0) k = true).
Proof.
  induction U as [|u U IH]; intros [|m M] HL HU HM; try discriminate HL.
  - simpl. split; [discriminate | intros (j & k & H & _); simpl in H; lia].
  - cbn [mask_clash]. cbn [bytes_ok forallb] in HU, HM.
    apply andb_true_iff in HU as [u1 u2], HM as [m1 m2].
    apply byte_ok_iff in u1, m1. injection HL as HL.
    rewrite orb_true_iff, negb_true_iff, land_nonzero_bit by lia.
    rewrite (IH M HL u2 m2). split.
    + intros [(k & Hk & B1 & B2) | (j & k & Hj & Hk & B1 & B2)].
      * exists 0%nat, k. simpl. repeat split; auto; lia.
      * exists (S j), k. simpl. repeat split; auto; lia.
    + intros (j & k & Hj & Hk & B1 & B2). destruct j as [|j].
      * left. exists k. auto.
      * right. exists j, k. simpl in Hj. repeat split; auto; lia.
Qed.

(* non-vacuity: a 12 bit value at bit position 3, both byte orders *)
Example emplace_example :
  (do s <- emplace_atomic (mkE [255; 255; 255] [0; 0; 0] 0 1 3 true [] [] None false)
                          (VInt 2748) 12 BUint None true None; Ok (e_msg s, e_cur s))
  = Ok ([255; 213; 231], 3)
  /\ (do s <- emplace_atomic (mkE [] [] 0 0 3 true [] [] None false)
                             (VInt 2748) 12 BUint None false None; Ok (e_msg s, e_cur s))
  = Ok ([224; 85], 2).
Proof. vm_compute. split; reflexivity. Qed.
