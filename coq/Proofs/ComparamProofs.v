(* C15: the (specification, protocol)-keyed override of communication parameters through the
   hierarchy (Model/Inherit.v comparams) *)
From Coq Require Import ZArith List Bool Lia.
From OV Require Import Base.Bytes Base.Wire Model.Inherit Proofs.InheritProofs.
Import ListNotations.
Open Scope Z_scope.

Definition ckey (c : cpinst) : Z * option Z := (cp_spec c, cp_proto c).

Lemma key_eqb_eq a b : key_eqb a b = true <-> a = b.
Proof.
  destruct a as [x [p|]], b as [y [q|]]; unfold key_eqb; simpl; split; intros H.
  - apply andb_true_iff in H as [H1 H2]. apply Z.eqb_eq in H1, H2. now subst.
  - inversion H. subst. now rewrite !Z.eqb_refl.
  - apply andb_true_iff in H as [_ H]. discriminate.
  - discriminate.
  - apply andb_true_iff in H as [_ H]. discriminate.
  - discriminate.
  - apply andb_true_iff in H as [H1 _]. apply Z.eqb_eq in H1. now subst.
  - inversion H. subst. now rewrite Z.eqb_refl.
Qed.

(* the instance filed under a key *)
Fixpoint kget (k : Z * option Z) (d : list cpinst) : option cpinst :=
  match d with
  | [] => None
  | c :: r => if key_eqb (ckey c) k then Some c else kget k r
  end.

Lemma kget_cset k c d :
  kget k (cset c d) = if key_eqb (ckey c) k then (match kget k d with Some _ => Some c | None => Some c end) else kget k d.
Proof.
  induction d as [|c' d IH]; cbn [cset kget].
  - destruct (key_eqb (ckey c) k); reflexivity.
  - fold (ckey c') (ckey c). destruct (key_eqb (ckey c') (ckey c)) eqn:E.
    + apply key_eqb_eq in E. cbn [kget]. rewrite E. destruct (key_eqb (ckey c) k); reflexivity.
    + cbn [kget]. destruct (key_eqb (ckey c') k) eqn:E2.
      * destruct (key_eqb (ckey c) k) eqn:E3; [|reflexivity].
        apply key_eqb_eq in E2, E3. rewrite <- E3 in E2.
        assert (key_eqb (ckey c') (ckey c) = true) by now apply key_eqb_eq. congruence.
      * exact IH.
Qed.

Corollary kget_cset' k c d : kget k (cset c d) = if key_eqb (ckey c) k then Some c else kget k d.
Proof. rewrite kget_cset. destruct (key_eqb (ckey c) k); [destruct (kget k d)|]; reflexivity. Qed.

(* keys stay unique *)
Lemma cset_keys c : forall d, NoDup (map ckey d) -> NoDup (map ckey (cset c d)) /\
                              (forall k, In k (map ckey (cset c d)) <-> k = ckey c \/ In k (map ckey d)).
Proof.
  induction d as [|c' d IH]; intros ND; cbn [cset map].
  - simpl. split.
    + constructor; [intros H; inversion H | constructor].
    + intros k. split; intros [E|[]]; left; congruence.
  - inversion ND as [|? ? Hn ND']. subst. fold (ckey c') (ckey c).
    destruct (key_eqb (ckey c') (ckey c)) eqn:E.
    + apply key_eqb_eq in E. cbn [map]. split.
      * constructor; [now rewrite <- E | exact ND'].
      * intros k. cbn. rewrite E. split; intros [A|A]; auto.
    + destruct (IH ND') as [N I]. cbn [map]. split.
      * constructor; [|exact N]. intros Hin. apply I in Hin as [Hk|Hk]; [|contradiction].
        assert (key_eqb (ckey c') (ckey c) = true) by now apply key_eqb_eq. congruence.
      * intros k. cbn. rewrite I. split; [intros [A|[A|A]] | intros [A|[A|A]]]; auto.
Qed.

Lemma fold_cset_nodup : forall l d, NoDup (map ckey d) -> NoDup (map ckey (fold_left (fun d c => cset c d) l d)).
Proof. induction l as [|c l IH]; intros d ND; cbn [fold_left]; [exact ND|]. apply IH. now apply cset_keys. Qed.

(* folding a list of instances into a dictionary: the LAST instance with the key wins, else
   the dictionary's *)
Fixpoint last_with (k : Z * option Z) (l : list cpinst) : option cpinst :=
  match l with
  | [] => None
  | c :: r => match last_with k r with Some x => Some x | None => if key_eqb (ckey c) k then Some c else None end
  end.

Lemma kget_fold k : forall l d,
  kget k (fold_left (fun d c => cset c d) l d) = match last_with k l with Some c => Some c | None => kget k d end.
Proof.
  induction l as [|c l IH]; intros d; cbn [fold_left last_with]; [reflexivity|].
  rewrite IH. destruct (last_with k l); [reflexivity|]. rewrite kget_cset'.
  destruct (key_eqb (ckey c) k); reflexivity.
Qed.

(* ---------- the hierarchy ---------- *)
Definition inherit_step (f : nat) (H : list clayer) (d : list cpinst) (p : pref) : list cpinst :=
  match find_cl (p_target p) H with
  | None => d
  | Some PL => fold_left (fun d c => cset c d) (comparams f H PL) d
  end.

Lemma comparams_unfold f H L :
  comparams (S f) H L =
  fold_left (fun d c => cset c d) (cl_cps L)
            (fold_left (inherit_step f H) (sort_asc (map as_layer H) (cl_parents L)) []).
Proof. reflexivity. Qed.

Lemma inherit_step_nodup f H d p : NoDup (map ckey d) -> NoDup (map ckey (inherit_step f H d p)).
Proof. intros ND. unfold inherit_step. destruct (find_cl (p_target p) H); [now apply fold_cset_nodup | exact ND]. Qed.

Lemma fold_inherit_nodup f H : forall ps d,
  NoDup (map ckey d) -> NoDup (map ckey (fold_left (inherit_step f H) ps d)).
Proof. induction ps as [|p ps IH]; intros d ND; cbn [fold_left]; [exact ND|]. apply IH. now apply inherit_step_nodup. Qed.

(* no key occurs twice in the parameters of a layer *)
Theorem comparams_keys_unique f H L : NoDup (map ckey (comparams f H L)).
Proof.
  destruct f as [|f]; [constructor|]. rewrite comparams_unfold.
  apply fold_cset_nodup, fold_inherit_nodup. constructor.
Qed.

(* a key defined locally resolves to the (last) local definition, whatever the parents define *)
Theorem comparams_local_wins f H L k c :
  last_with k (cl_cps L) = Some c -> kget k (comparams (S f) H L) = Some c.
Proof. intros Hl. rewrite comparams_unfold, kget_fold, Hl. reflexivity. Qed.

(* a key which is not defined locally resolves as in the dictionary inherited from the parents *)
Theorem comparams_inherited f H L k :
  last_with k (cl_cps L) = None ->
  kget k (comparams (S f) H L) =
  kget k (fold_left (inherit_step f H) (sort_asc (map as_layer H) (cl_parents L)) []).
Proof. intros Hl. rewrite comparams_unfold, kget_fold, Hl. reflexivity. Qed.

(* among the parents the one processed LAST (sort_asc: the one of highest priority) which
   knows the key wins *)
Lemma kget_inherit_step f H d p k :
  kget k (inherit_step f H d p) =
  match find_cl (p_target p) H with
  | Some PL => match last_with k (comparams f H PL) with Some c => Some c | None => kget k d end
  | None => kget k d
  end.
Proof. unfold inherit_step. destruct (find_cl (p_target p) H); [apply kget_fold | reflexivity]. Qed.

Theorem inherited_last_parent_wins f H k : forall ps d p PL c,
  find_cl (p_target p) H = Some PL -> last_with k (comparams f H PL) = Some c ->
  kget k (fold_left (inherit_step f H) (ps ++ [p]) d) = Some c.
Proof.
  intros ps d p PL c Hf Hl. rewrite fold_left_app. cbn [fold_left]. rewrite kget_inherit_step, Hf, Hl. reflexivity.
Qed.

Theorem inherited_skips_ignorant_parent f H k : forall ps d p,
  (forall PL, find_cl (p_target p) H = Some PL -> last_with k (comparams f H PL) = None) ->
  kget k (fold_left (inherit_step f H) (ps ++ [p]) d) = kget k (fold_left (inherit_step f H) ps d).
Proof.
  intros ps d p Hn. rewrite fold_left_app. cbn [fold_left]. rewrite kget_inherit_step.
  destruct (find_cl (p_target p) H) as [PL|]; [now rewrite (Hn PL eq_refl) | reflexivity].
Qed.

(* since keys are unique in a parent's own list, "last with the key" is "the one with the key" *)
Lemma last_with_unique k : forall l, NoDup (map ckey l) -> last_with k l = kget k l.
Proof.
  induction l as [|c l IH]; intros ND; cbn [last_with kget]; [reflexivity|].
  inversion ND as [|? ? Hn ND']. subst. rewrite (IH ND').
  destruct (key_eqb (ckey c) k) eqn:E.
  - apply key_eqb_eq in E. subst k.
    destruct (kget (ckey c) l) eqn:G; [|reflexivity].
    exfalso. apply Hn. clear -G. induction l as [|x l IHl]; [discriminate|]. cbn [kget] in G.
    destruct (key_eqb (ckey x) (ckey c)) eqn:E; [apply key_eqb_eq in E; left; exact E | right; now apply IHl].
  - destruct (kget k l); reflexivity.
Qed.

Example comparam_example :
  (* protocol P defines (1,None)=10 and (1,Some 7)=11; base variant B (parent P) overrides (1,None)=20;
     ECU variant V (parents B and P) defines (2,None)=30 *)
  let P := mkCL 0 TProtocol [] [mkCp 1 None [10] [] 1; mkCp 1 (Some 7) [11] [] 2] in
  let B := mkCL 1 TBaseVariant [mkPref 0 []] [mkCp 1 None [20] [] 3] in
  let V := mkCL 2 TEcuVariant [mkPref 0 []; mkPref 1 []] [mkCp 2 None [30] [] 4] in
  let H := [P; B; V] in
  map cp_tag (comparams 4 H V) = [3; 2; 4] /\
  option_map cp_tag (kget (1, None) (comparams 4 H V)) = Some 3.
Proof. vm_compute. split; reflexivity. Qed.
