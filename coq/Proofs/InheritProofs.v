(* Proofs about Model/Inherit.v *)
From Coq Require Import ZArith List Bool Lia.
From OV Require Import Base.Bytes Base.Wire Generated Model.Inherit.
Import ListNotations.
Open Scope Z_scope.

(* ---------- priorities (table regenerated from the sources) ---------- *)
Lemma priorities_ok :
  0 < prio TProtocol < prio TFuncGroup /\ prio TFuncGroup < prio TBaseVariant /\
  prio TBaseVariant < prio TEcuVariant /\ prio TEcuVariant < prio TEcuShared.
Proof. vm_compute. repeat split; reflexivity. Qed.

(* ---------- the dictionary ---------- *)
Lemma dget_dset_same k v d : dget k (dset k v d) = Some v.
Proof.
  induction d as [|[k' v'] d IH]; simpl; [now rewrite Z.eqb_refl|].
  destruct (k' =? k) eqn:E; simpl; rewrite ?E, ?Z.eqb_refl; auto.
Qed.

Lemma dget_dset_other k k' v d : k' <> k -> dget k' (dset k v d) = dget k' d.
Proof.
  intros H. induction d as [|[k0 v0] d IH]; simpl.
  - replace (k =? k') with false by lia. reflexivity.
  - destruct (k0 =? k) eqn:E; simpl.
    + apply Z.eqb_eq in E. subst. replace (k =? k') with false by lia. reflexivity.
    + destruct (k0 =? k'); auto.
Qed.

Lemma dset_keys k v d : In k (map fst d) -> map fst (dset k v d) = map fst d.
Proof.
  induction d as [|[k' v'] d IH]; simpl; [intros []|].
  destruct (k' =? k) eqn:E; simpl.
  - apply Z.eqb_eq in E. now subst.
  - intros [->|H]; [rewrite Z.eqb_refl in E; discriminate | now rewrite IH].
Qed.

Lemma dset_keys_new k v d : ~ In k (map fst d) -> map fst (dset k v d) = map fst d ++ [k].
Proof.
  induction d as [|[k' v'] d IH]; simpl; [reflexivity|].
  intros H. destruct (k' =? k) eqn:E; simpl.
  - apply Z.eqb_eq in E. tauto.
  - rewrite IH; tauto.
Qed.

Lemma NoDup_snoc {A} (l : list A) (a : A) : NoDup l -> ~ In a l -> NoDup (l ++ [a]).
Proof.
  induction l as [|b l IH]; simpl; intros N H.
  - repeat constructor. intros [].
  - inversion N as [|? ? Hb N']; subst. constructor.
    + rewrite in_app_iff. simpl. intros [Hi|[->|[]]]; tauto.
    + apply IH; tauto.
Qed.

Lemma dset_nodup k v d : NoDup (map fst d) -> NoDup (map fst (dset k v d)).
Proof.
  intros N. destruct (in_dec Z.eq_dec k (map fst d)) as [I|I].
  - now rewrite dset_keys.
  - rewrite dset_keys_new by assumption. now apply NoDup_snoc.
Qed.

Lemma dget_In k v d : dget k d = Some v -> In (k, v) d.
Proof.
  induction d as [|[k' v'] d IH]; simpl; [discriminate|].
  destruct (k' =? k) eqn:E.
  - apply Z.eqb_eq in E. intros [= ->]. subst. now left.
  - intros H. right. now apply IH.
Qed.

(* well-formed dictionary: keys are unique and equal to the object's short name *)
Definition dwf (d : list entry) : Prop :=
  NoDup (map fst d) /\ forall k o via, In (k, (o, via)) d -> o_name o = k.

Lemma In_dset_wf k v d e : NoDup (map fst d) -> In e (dset k v d) -> e = (k, v) \/ (In e d /\ fst e <> k).
Proof.
  induction d as [|[k' v'] d IH]; simpl; intros N.
  - intros [<-|[]]. now left.
  - inversion N as [|? ? Hk N']; subst. destruct (k' =? k) eqn:E; simpl.
    + apply Z.eqb_eq in E. subst k'. intros [<-|H]; [now left|].
      right. split; [now right|]. intros Ek. apply Hk. apply in_map_iff. exists e. auto.
    + apply Z.eqb_neq in E. intros [<-|H].
      * right. split; [now left | exact E].
      * destruct (IH N' H) as [->|[Hi Hne]]; [now left | right; split; [now right | exact Hne]].
Qed.

Lemma dset_wf k o via d : dwf d -> o_name o = k -> dwf (dset k (o, via) d).
Proof.
  intros [N W] Hk. split; [now apply dset_nodup|].
  intros k' o' via' H. destruct (In_dset_wf k (o, via) d (k', (o', via')) N H) as [E|[Hi _]].
  - injection E as -> -> _. exact Hk.
  - eapply W; eassumption.
Qed.

(* ---------- merging one parent ---------- *)
Lemma merge_wf H locals pid objs : forall d d',
  dwf d -> merge_objs H locals pid objs d = IOk d' -> dwf d'.
Proof.
  induction objs as [|o r IH]; intros d d' W; simpl.
  - intros [= <-]. exact W.
  - destruct (dget (o_name o) d) as [[o' via]|].
    + destruct (layer_prio H pid <? layer_prio H via); [now apply IH|].
      destruct (layer_prio H via <? layer_prio H pid); [apply IH; now apply dset_wf|].
      destruct (memZ (o_name o) locals); [now apply IH|].
      destruct (obj_eqb o o'); [now apply IH | discriminate].
    + apply IH. now apply dset_wf.
Qed.

(* where the entries of the merged dictionary come from *)
Lemma merge_origin H locals pid objs : forall d d',
  dwf d -> merge_objs H locals pid objs d = IOk d' ->
  forall e, In e d' -> In e d \/ (In (fst (snd e)) objs /\ snd (snd e) = pid).
Proof.
  induction objs as [|o r IH]; intros d d' W; simpl.
  - intros [= <-] e He. now left.
  - assert (K : forall d1, dwf d1 -> (forall e, In e d1 -> In e d \/ (fst (snd e) = o /\ snd (snd e) = pid)) ->
                merge_objs H locals pid r d1 = IOk d' ->
                forall e, In e d' -> In e d \/ ((o = fst (snd e) \/ In (fst (snd e)) r) /\ snd (snd e) = pid)).
    { intros d1 W1 Sub M e He. destruct (IH d1 d' W1 M e He) as [H1|[H1 H2]].
      - destruct (Sub e H1) as [A|[A B]]; [now left | right; split; [left; now symmetry | exact B]].
      - right. split; [now right | exact H2]. }
    assert (Same : forall e, In e d -> In e d \/ (fst (snd e) = o /\ snd (snd e) = pid)) by (intros; now left).
    assert (Upd : forall e, In e (dset (o_name o) (o, pid) d) -> In e d \/ (fst (snd e) = o /\ snd (snd e) = pid)).
    { intros e He. destruct (In_dset_wf _ _ _ _ (proj1 W) He) as [->|[Hi _]]; [right; split; reflexivity | now left]. }
    destruct (dget (o_name o) d) as [[o' via]|].
    + destruct (layer_prio H pid <? layer_prio H via); [now apply K|].
      destruct (layer_prio H via <? layer_prio H pid); [apply K; [now apply dset_wf | exact Upd]|].
      destruct (memZ (o_name o) locals); [now apply K|].
      destruct (obj_eqb o o'); [now apply K | discriminate].
    + apply K; [now apply dset_wf | exact Upd].
Qed.

(* every name offered by the parent is present afterwards *)
Lemma merge_complete H locals pid objs : forall d d',
  merge_objs H locals pid objs d = IOk d' ->
  (forall k, In k (map fst d) -> In k (map fst d')) /\
  (forall o, In o objs -> In (o_name o) (map fst d')).
Proof.
  induction objs as [|o r IH]; intros d d'; simpl.
  - intros [= <-]. split; [auto | intros o []].
  - assert (K : forall d1, (forall k, In k (map fst d) -> In k (map fst d1)) -> In (o_name o) (map fst d1) ->
                merge_objs H locals pid r d1 = IOk d' ->
                (forall k, In k (map fst d) -> In k (map fst d')) /\
                (forall o0, o = o0 \/ In o0 r -> In (o_name o0) (map fst d'))).
    { intros d1 Sub Ho M. destruct (IH d1 d' M) as [A B]. split; [auto|].
      intros o0 [<-|Hr]; [now apply A | now apply B]. }
    assert (Keys : forall v k, In k (map fst d) -> In k (map fst (dset (o_name o) v d))).
    { intros v k Hk. destruct (in_dec Z.eq_dec (o_name o) (map fst d)) as [I|I].
      - now rewrite dset_keys.
      - rewrite dset_keys_new by assumption. apply in_app_iff. now left. }
    assert (New : forall v, In (o_name o) (map fst (dset (o_name o) v d))).
    { intros v. destruct (in_dec Z.eq_dec (o_name o) (map fst d)) as [I|I].
      - now rewrite dset_keys.
      - rewrite dset_keys_new by assumption. apply in_app_iff. right. now left. }
    destruct (dget (o_name o) d) as [[o' via]|] eqn:G.
    + assert (Old : In (o_name o) (map fst d)).
      { apply dget_In in G. apply in_map_iff. exists (o_name o, (o', via)). auto. }
      destruct (layer_prio H pid <? layer_prio H via); [now apply K|].
      destruct (layer_prio H via <? layer_prio H pid); [apply K; auto|].
      destruct (memZ (o_name o) locals); [now apply K|].
      destruct (obj_eqb o o'); [now apply K | discriminate].
    + apply K; auto.
Qed.

(* ---------- the loop over the parent references ---------- *)
Definition from_parent (rec : layer -> ires (list obj)) (H : list layer) (ps : list pref) (e : entry) : Prop :=
  exists p PL objs, In p ps /\ find_layer (p_target p) H = Some PL /\ rec PL = IOk objs /\
                    In (fst (snd e)) objs /\ memZ (o_name (fst (snd e))) (p_excl p) = false /\
                    snd (snd e) = l_id PL.

Lemma go_parents_spec rec H L ps : forall d d',
  dwf d -> go_parents rec H L ps d = IOk d' ->
  dwf d' /\ (forall e, In e d' -> In e d \/ from_parent rec H ps e) /\
  (forall k, In k (map fst d) -> In k (map fst d')) /\
  (forall p PL objs o, In p ps -> find_layer (p_target p) H = Some PL -> rec PL = IOk objs ->
                       In o objs -> memZ (o_name o) (p_excl p) = false -> In (o_name o) (map fst d')).
Proof.
  induction ps as [|p r IH]; intros d d' W; simpl.
  - intros [= <-]. split; [exact W|]. split; [intros e He; now left|]. split; [auto|]. intros p PL objs o [].
  - destruct (find_layer (p_target p) H) as [PL|] eqn:F.
    + destruct (rec PL) as [objs| |] eqn:R; try discriminate.
      set (inh := filter (fun o => negb (memZ (o_name o) (p_excl p))) objs).
      destruct (merge_objs H (l_locals L) (l_id PL) inh d) as [d1| |] eqn:M; try discriminate.
      intros G. pose proof (merge_wf _ _ _ _ _ _ W M) as W1.
      destruct (IH d1 d' W1 G) as (Wd & Or & Keys & Comp).
      destruct (merge_complete _ _ _ _ _ _ M) as [K1 K2].
      split; [exact Wd|]. split; [|split].
      * intros e He. destruct (Or e He) as [H1|(p' & PL' & objs' & Hp & Rest)].
        -- destruct (merge_origin _ _ _ _ _ _ W M e H1) as [A|[A B]]; [now left|].
           right. unfold inh in A. apply filter_In in A as [A1 A2]. apply negb_true_iff in A2.
           exists p, PL, objs. repeat split; auto. now left.
        -- right. exists p', PL', objs'. split; [now right | exact Rest].
      * intros k Hk. apply Keys, K1, Hk.
      * intros p' PL' objs' o [<-|Hp] F' R' Ho Hex.
        -- rewrite F in F'. injection F' as <-. rewrite R in R'. injection R' as <-.
           apply Keys, K2. unfold inh. apply filter_In. split; [exact Ho | now rewrite Hex].
        -- eapply Comp; eassumption.
    + intros G. destruct (IH d d' W G) as (Wd & Or & Keys & Comp).
      split; [exact Wd|]. split; [|split; [exact Keys|]].
      * intros e He. destruct (Or e He) as [A|(p' & PL' & objs' & Hp & Rest)]; [now left|].
        right. exists p', PL', objs'. split; [now right | exact Rest].
      * intros p' PL' objs' o [<-|Hp] F' R' Ho Hex; [congruence | eapply Comp; eassumption].
Qed.

(* ---------- adding the local objects ---------- *)
Lemma fold_dset_keep (id : Z) ns : forall d n v,
  ~ In n ns -> dget n d = Some v ->
  dget n (fold_left (fun d m => dset m (mkObj m id, id) d) ns d) = Some v.
Proof.
  induction ns as [|m ns IH]; intros d n v I G; simpl; [exact G|].
  apply IH; [intros Hn; apply I; now right|].
  rewrite dget_dset_other; [exact G | intros ->; apply I; now left].
Qed.

Lemma add_locals_spec L : forall d,
  dwf d ->
  dwf (add_locals L d) /\
  (forall n, In n (l_locals L) -> dget n (add_locals L d) = Some (mkObj n (l_id L), l_id L)) /\
  (forall e, In e (add_locals L d) ->
     (In (fst e) (l_locals L) /\ snd e = (mkObj (fst e) (l_id L), l_id L)) \/ (In e d /\ ~ In (fst e) (l_locals L))) /\
  (forall k, In k (map fst d) -> In k (map fst (add_locals L d))).
Proof.
  unfold add_locals. induction (l_locals L) as [|n ns IH]; intros d W; simpl.
  - split; [exact W|]. split; [intros n []|]. split; [intros e He; right; auto | auto].
  - set (d1 := dset n (mkObj n (l_id L), l_id L) d).
    assert (W1 : dwf d1) by (apply dset_wf; [exact W | reflexivity]).
    destruct (IH d1 W1) as (Wd & Loc & Or & Keys). split; [exact Wd|]. split; [|split].
    + intros m [<-|Hm]; [|now apply Loc].
      destruct (in_dec Z.eq_dec n ns) as [I|I]; [now apply Loc|].
      (* n is not set again: its entry survives *)
      apply fold_dset_keep; [exact I | apply dget_dset_same].
    + intros e He. destruct (Or e He) as [[A B]|[A B]].
      * left. split; [now right | exact B].
      * destruct (In_dset_wf _ _ _ _ (proj1 W) A) as [->|[Hi Hne]].
        -- left. split; [now left | reflexivity].
        -- right. split; [exact Hi|]. intros [E|Hn]; [congruence | exact (B Hn)].
    + intros k Hk. apply Keys. unfold d1.
      destruct (in_dec Z.eq_dec n (map fst d)) as [I|I].
      * now rewrite dset_keys.
      * rewrite dset_keys_new by assumption. apply in_app_iff. now left.
Qed.

(* ---------- the theorems about [avail] ---------- *)
Lemma dwf_nil : dwf []. Proof. split; [constructor | intros k o via []]. Qed.

Theorem avail_names_unique fuel H L os : avail fuel H L = IOk os -> NoDup (map o_name os).
Proof.
  destruct fuel as [|f]; [discriminate|]. simpl.
  destruct (go_parents (avail f H) H L (sort_desc H (l_parents L)) []) as [d| |] eqn:G; try discriminate.
  intros [= <-]. destruct (go_parents_spec _ _ _ _ _ _ dwf_nil G) as (Wd & _).
  destruct (add_locals_spec L d Wd) as ((N & Wn) & _).
  rewrite map_map. erewrite map_ext_in; [exact N|].
  intros [k [o via]] Hin. simpl. eapply Wn. exact Hin.
Qed.

Theorem avail_local_override fuel H L os n :
  avail fuel H L = IOk os -> In n (l_locals L) ->
  In (mkObj n (l_id L)) os /\ forall o, In o os -> o_name o = n -> o = mkObj n (l_id L).
Proof.
  destruct fuel as [|f]; [discriminate|]. simpl.
  destruct (go_parents (avail f H) H L (sort_desc H (l_parents L)) []) as [d| |] eqn:G; try discriminate.
  intros [= <-] Hn. destruct (go_parents_spec _ _ _ _ _ _ dwf_nil G) as (Wd & _).
  destruct (add_locals_spec L d Wd) as ((N & Wn) & Loc & Or & _).
  pose proof (dget_In _ _ _ (Loc n Hn)) as I. split.
  - apply in_map_iff. exists (n, (mkObj n (l_id L), l_id L)). split; [reflexivity | exact I].
  - intros o Ho En. apply in_map_iff in Ho as ([k [o' via]] & E & Hin). simpl in E. subst o'.
    assert (k = n) by (rewrite <- En; symmetry; eapply Wn; exact Hin). subst k.
    destruct (Or _ Hin) as [[_ B]|[_ B]]; [simpl in B; congruence | simpl in B; tauto].
Qed.

Theorem avail_origin f H L os o :
  avail (S f) H L = IOk os -> In o os ->
  (In (o_name o) (l_locals L) /\ o = mkObj (o_name o) (l_id L)) \/
  (~ In (o_name o) (l_locals L) /\
   exists p PL objs, In p (l_parents L) /\ find_layer (p_target p) H = Some PL /\
                     avail f H PL = IOk objs /\ In o objs /\ memZ (o_name o) (p_excl p) = false).
Proof.
  simpl.
  destruct (go_parents (avail f H) H L (sort_desc H (l_parents L)) []) as [d| |] eqn:G; try discriminate.
  intros [= <-] Ho. destruct (go_parents_spec _ _ _ _ _ _ dwf_nil G) as (Wd & Or0 & _).
  destruct (add_locals_spec L d Wd) as ((N & Wn) & _ & Or & _).
  apply in_map_iff in Ho as ([k [o' via]] & E & Hin). simpl in E. subst o'.
  assert (Ek : o_name o = k) by (eapply Wn; exact Hin).
  destruct (Or _ Hin) as [[A B]|[A B]]; simpl in A, B.
  - left. injection B as -> _. simpl in *. split; [exact A | reflexivity].
  - right. split; [rewrite Ek; exact B|].
    destruct (Or0 _ A) as [[]|(p & PL & objs & Hp & F & R & Io & Ex & _)]. simpl in Io, Ex.
    exists p, PL, objs. repeat split; auto.
    (* membership in the sorted list implies membership in the original list *)
    clear -Hp. unfold sort_desc in Hp.
    assert (Q : forall l acc, In p (fold_left (fun acc p0 => ins_desc H p0 acc) l acc) -> In p l \/ In p acc).
    { induction l as [|q l IH]; intros acc Hq; simpl in Hq; [now right|].
      destruct (IH _ Hq) as [A|A]; [left; now right|].
      assert (R : forall acc0, In p (ins_desc H q acc0) -> p = q \/ In p acc0).
      { induction acc0 as [|a acc0 IHa]; simpl; [intros [<-|[]]; now left|].
        destruct (_ <? _); simpl; [intros [<-|[<-|X]]; auto | intros [<-|X]; auto].
        destruct (IHa X); auto. }
      destruct (R _ A) as [->|B]; [left; now left | now right]. }
    destruct (Q _ _ Hp) as [A|[]]. exact A.
Qed.

Theorem avail_complete f H L os p PL objs o :
  avail (S f) H L = IOk os -> In p (l_parents L) -> find_layer (p_target p) H = Some PL ->
  avail f H PL = IOk objs -> In o objs -> memZ (o_name o) (p_excl p) = false ->
  exists o', In o' os /\ o_name o' = o_name o.
Proof.
  simpl.
  destruct (go_parents (avail f H) H L (sort_desc H (l_parents L)) []) as [d| |] eqn:G; try discriminate.
  intros [= <-] Hp F R Ho Ex. destruct (go_parents_spec _ _ _ _ _ _ dwf_nil G) as (Wd & _ & _ & Comp).
  destruct (add_locals_spec L d Wd) as ((N & Wn) & _ & _ & Keys).
  assert (Hs : In p (sort_desc H (l_parents L))).
  { unfold sort_desc.
    assert (Q : forall l acc, In p l \/ In p acc -> In p (fold_left (fun acc p0 => ins_desc H p0 acc) l acc)).
    { induction l as [|q l IH]; intros acc Hq; simpl; [destruct Hq as [[]|]; assumption|].
      apply IH.
      assert (R' : forall acc0, p = q \/ In p acc0 -> In p (ins_desc H q acc0)).
      { induction acc0 as [|a acc0 IHa]; simpl; [intros [->|[]]; now left|].
        destruct (_ <? _); simpl.
        - intros [->|[->|X]]; auto.
        - intros [->|[->|X]]; [right; apply IHa; now left | now left | right; apply IHa; now right]. }
      destruct Hq as [[->|A]|A]; [right; apply R'; now left | now left | right; apply R'; now right]. }
    apply Q. now left. }
  pose proof (Keys _ (Comp p PL objs o Hs F R Ho Ex)) as K.
  apply in_map_iff in K as ([k [o' via]] & E & Hin). simpl in E. subst k.
  exists o'. split.
  - apply in_map_iff. exists (o_name o, (o', via)). auto.
  - eapply Wn. exact Hin.
Qed.

(* ---------- communication parameters ---------- *)
Lemma cset_In c d : In c (cset c d).
Proof.
  induction d as [|c' d IH]; simpl; [now left|].
  destruct (key_eqb _ _); [now left | now right].
Qed.

(* lookup with a protocol: the protocol specific definition before the generic one *)
Theorem lookup_specific_first S cps name p c :
  get_comparam S cps name (Some p) = Some c ->
  bytes_eqb (cp_name S c) name = true /\
  (cp_proto c = Some p \/
   (cp_proto c = None /\
    forall c', In c' cps -> bytes_eqb (cp_name S c') name = true -> cp_proto c' <> Some p)).
Proof.
  unfold get_comparam.
  set (named := filter (fun c => bytes_eqb (cp_name S c) name) cps).
  set (ok := filter (fun c => match cp_proto c with None => true | Some q => q =? p end) named).
  set (specific := filter (fun c => match cp_proto c with Some _ => true | None => false end) ok).
  set (generic := filter (fun c => match cp_proto c with Some _ => false | None => true end) ok).
  intros Hh.
  assert (Hin : In c (specific ++ generic)) by (destruct (specific ++ generic); [discriminate | injection Hh as <-; now left]).
  apply in_app_iff in Hin as [Hs|Hg].
  - unfold specific in Hs. apply filter_In in Hs as [Hok Hsp]. unfold ok in Hok.
    apply filter_In in Hok as [Hn Hp]. unfold named in Hn. apply filter_In in Hn as [_ Hn].
    split; [exact Hn|]. left. destruct (cp_proto c) as [q|]; [|discriminate]. apply Z.eqb_eq in Hp. now subst.
  - destruct specific as [|s0 sp] eqn:Es.
    + unfold generic in Hg. apply filter_In in Hg as [Hok Hge]. unfold ok in Hok.
      apply filter_In in Hok as [Hn _]. unfold named in Hn. apply filter_In in Hn as [_ Hn].
      split; [exact Hn|]. right. split; [destruct (cp_proto c); [discriminate | reflexivity]|].
      intros c' Hc' Hn' Hp'.
      assert (In c' specific).
      { unfold specific, ok, named. apply filter_In. split; [apply filter_In; split; [apply filter_In; auto|]|];
          rewrite Hp'; [apply Z.eqb_refl | reflexivity]. }
      rewrite Es in H. contradiction.
    + simpl in Hh. injection Hh as <-.
      assert (Hs : In s0 specific) by (rewrite Es; now left).
      unfold specific in Hs. apply filter_In in Hs as [Hok Hsp]. unfold ok in Hok.
      apply filter_In in Hok as [Hn Hp]. unfold named in Hn. apply filter_In in Hn as [_ Hn].
      split; [exact Hn|]. left. destruct (cp_proto s0) as [q|]; [|discriminate]. apply Z.eqb_eq in Hp. now subst.
Qed.

(* values fall back to the default of the specification *)
Theorem value_default S c s :
  find_spec (cp_spec c) S = Some s -> sp_complex s = false -> cp_value c = [] ->
  get_value S c = Some (sp_default s).
Proof. intros F C V. unfold get_value. now rewrite F, C, V. Qed.

Theorem value_explicit S c s x v :
  find_spec (cp_spec c) S = Some s -> sp_complex s = false -> cp_value c = x :: v ->
  get_value S c = Some (x :: v).
Proof. intros F C V. unfold get_value. now rewrite F, C, V. Qed.

Example inherit_examples :
  (* a diamond: the same object reached through two equal-priority parents is no conflict;
     two different objects of that name are *)
  let H1 := [mkLayer 0 TProtocol [] [1]; mkLayer 1 TBaseVariant [mkPref 0 []] []; mkLayer 2 TBaseVariant [mkPref 0 []] [];
             mkLayer 3 TEcuVariant [mkPref 1 []; mkPref 2 []] []] in
  let H2 := [mkLayer 0 TBaseVariant [] [1]; mkLayer 1 TBaseVariant [] [1]; mkLayer 2 TEcuVariant [mkPref 0 []; mkPref 1 []] []] in
  avail 5 H1 (mkLayer 3 TEcuVariant [mkPref 1 []; mkPref 2 []] []) = IOk [mkObj 1 0] /\
  avail 5 H2 (mkLayer 2 TEcuVariant [mkPref 0 []; mkPref 1 []] []) = IConflict.
Proof. vm_compute. split; reflexivity. Qed.
