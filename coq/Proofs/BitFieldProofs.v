(* C01 / C02 for bit fields: a STRUCTURE whose parameters are unsigned objects of 1..8 bits, all at BYTE-POSITION 0
   of the structure with explicit BIT-POSITIONs, on pairwise disjoint bit ranges of that byte (status flags, packed
   nibbles ...). In whatever order the parameters are listed, the structure encodes to ONE byte, the bitwise OR of
   the shifted values, no overlap warning is raised, and every parameter reads its value back.
   A further good member for FieldProofs.v. *)
From Coq Require Import ZArith List Bool Lia.
From OV Require Import Base.Bytes Base.Wire Generated Model.Str Model.Codec
     Proofs.BytesProofs Proofs.AtomicProofs Proofs.CodecProps Proofs.FlatProofs Proofs.TreeProofs Proofs.TreeWireProofs
     Proofs.FieldProofs Proofs.CompareProofs.
Import ListNotations.
Open Scope Z_scope.

Record bfield := mkBF { b_name : name; b_pos : Z; b_len : Z }.

Definition bf_ok (x : bfield) : Prop := 0 <= b_pos x /\ 0 < b_len x /\ b_pos x + b_len x <= 8.
Definition bf_disj (x y : bfield) : Prop := b_pos x + b_len x <= b_pos y \/ b_pos y + b_len y <= b_pos x.
Definition in_region (x : bfield) (i : Z) : bool := (b_pos x <=? i) && (i <? b_pos x + b_len x).

Definition bf_mask (x : bfield) : Z := (2 ^ b_len x - 1) * 2 ^ b_pos x.

Section Bits.
  Variable vv : name -> Z.
  Definition bf_val (x : bfield) : Z := vv (b_name x).
  Definition bf_data (x : bfield) : Z := bf_val x * 2 ^ b_pos x.
  Definition val_ok (x : bfield) : Prop := 0 <= bf_val x < 2 ^ b_len x.

  (* what emplace_bytes does to the byte, and the closed form *)
  Definition wstep (B : Z) (x : bfield) : Z := Z.lor (Z.land B (Z.lnot (bf_mask x))) (Z.land (bf_data x) (bf_mask x)).
  Definition ostep (B : Z) (x : bfield) : Z := Z.lor B (bf_data x).
  Definition mstep (U : Z) (x : bfield) : Z := Z.lor U (bf_mask x).
  Definition pack (fs : list bfield) : Z := fold_left ostep fs 0.

  Lemma pow2_byte n : 0 <= n <= 8 -> 0 < 2 ^ n <= 256.
  Proof.
    intros H. split; [apply Z.pow_pos_nonneg; lia|]. change 256 with (2 ^ 8). apply Z.pow_le_mono_r; lia.
  Qed.

  Lemma mask_range x : bf_ok x -> 0 <= bf_mask x < 256.
  Proof.
    intros (Hp & Hl & Hs). unfold bf_mask.
    assert (P1 : 0 < 2 ^ b_len x) by (apply Z.pow_pos_nonneg; lia).
    assert (P2 : 0 < 2 ^ b_pos x) by (apply Z.pow_pos_nonneg; lia).
    assert (P3 : 2 ^ b_len x * 2 ^ b_pos x <= 256).
    { rewrite <- Z.pow_add_r by lia. change 256 with (2 ^ 8). apply Z.pow_le_mono_r; lia. }
    nia.
  Qed.

  Lemma data_range x : bf_ok x -> val_ok x -> 0 <= bf_data x < 256.
  Proof.
    intros (Hp & Hl & Hs) Hv. unfold bf_data. unfold val_ok in Hv.
    assert (P2 : 0 < 2 ^ b_pos x) by (apply Z.pow_pos_nonneg; lia).
    assert (P3 : 2 ^ b_len x * 2 ^ b_pos x <= 256).
    { rewrite <- Z.pow_add_r by lia. change 256 with (2 ^ 8). apply Z.pow_le_mono_r; lia. }
    nia.
  Qed.

  Lemma val_high_bits x i : bf_ok x -> val_ok x -> b_len x <= i -> Z.testbit (bf_val x) i = false.
  Proof.
    intros (Hp & Hl & Hs) Hv Hi. destruct (Z.eq_dec (bf_val x) 0) as [->|N]; [apply Z.bits_0|].
    apply Z.bits_above_log2; [apply Hv|]. apply Z.log2_lt_pow2; [unfold val_ok in Hv; lia|].
    eapply Z.lt_le_trans; [apply Hv | apply Z.pow_le_mono_r; lia].
  Qed.

  Lemma mask_testbit x i : bf_ok x -> 0 <= i -> Z.testbit (bf_mask x) i = in_region x i.
  Proof. intros (Hp & Hl & Hs) Hi. unfold bf_mask, in_region. apply mask_bits; lia. Qed.

  Lemma data_testbit x i : bf_ok x -> val_ok x -> 0 <= i ->
    Z.testbit (bf_data x) i = in_region x i && Z.testbit (bf_val x) (i - b_pos x).
  Proof.
    intros Hok Hv Hi. pose proof Hok as (Hp & Hl & Hs). unfold bf_data, in_region. rewrite data_bits by lia.
    destruct (b_pos x <=? i) eqn:L1; [|reflexivity]. cbn [andb].
    destruct (i <? b_pos x + b_len x) eqn:L2; [reflexivity|]. cbn [andb].
    apply val_high_bits; auto. lia.
  Qed.

  (* one write: inside the region the new value, outside what was there *)
  Lemma wstep_bits B x i : bf_ok x -> val_ok x -> 0 <= i ->
    Z.testbit (wstep B x) i = if in_region x i then Z.testbit (bf_val x) (i - b_pos x) else Z.testbit B i.
  Proof.
    intros Hok Hv Hi. unfold wstep. rewrite Z.lor_spec, !Z.land_spec, Z.lnot_spec by lia.
    rewrite mask_testbit, data_testbit by assumption.
    destruct (in_region x i), (Z.testbit B i), (Z.testbit (bf_val x) (i - b_pos x)); reflexivity.
  Qed.

  Lemma wstep_range B x : bf_ok x -> val_ok x -> 0 <= B < 256 -> 0 <= wstep B x < 256.
  Proof. intros Hok Hv HB. unfold wstep. apply masked_byte_ok; auto using data_range, mask_range. Qed.

  Lemma region_low x i : bf_ok x -> in_region x i = true -> 0 <= i < 8.
  Proof. intros (Hp & Hl & Hs) H. unfold in_region in H. lia. Qed.

  Lemma disj_regions x y i : bf_disj x y -> in_region x i = true -> in_region y i = false.
  Proof. unfold bf_disj, in_region. intros D H. lia. Qed.

  (* later writes to other ranges leave a bit alone *)
  Lemma writes_keep : forall fs B i, 0 <= i ->
    (forall y, In y fs -> bf_ok y /\ val_ok y /\ in_region y i = false) ->
    Z.testbit (fold_left wstep fs B) i = Z.testbit B i.
  Proof.
    induction fs as [|y fs IH]; intros B i Hi H; cbn [fold_left]; [reflexivity|].
    destruct (H y (or_introl eq_refl)) as (Hok & Hv & Hr).
    rewrite IH by (auto; intros z Hz; apply H; now right).
    rewrite wstep_bits by assumption. now rewrite Hr.
  Qed.

  Definition pairwise (fs : list bfield) : Prop :=
    NoDup fs /\ forall x y, In x fs -> In y fs -> x <> y -> bf_disj x y.

  Lemma pairwise_tail y fs : pairwise (y :: fs) -> pairwise fs /\ forall z, In z fs -> bf_disj y z.
  Proof.
    intros (ND & D). inversion ND as [|? ? Hy ND']. subst. split; [split; [exact ND'|]|].
    - intros a b Ha Hb Hab. apply D; [now right | now right | exact Hab].
    - intros z Hz. apply D; [now left | now right |]. intros ->. contradiction.
  Qed.

  (* every field finds its bits in the final byte *)
  Lemma field_bits : forall fs B x i,
    pairwise fs -> (forall y, In y fs -> bf_ok y /\ val_ok y) -> In x fs -> in_region x i = true ->
    Z.testbit (fold_left wstep fs B) i = Z.testbit (bf_val x) (i - b_pos x).
  Proof.
    induction fs as [|y fs IH]; intros B x i PW Hall Hx Hr; [contradiction|]. cbn [fold_left].
    destruct (pairwise_tail y fs PW) as (PW' & Dy).
    destruct (Hall y (or_introl eq_refl)) as (Hoky & Hvy).
    assert (Hi : 0 <= i) by (destruct (Hall x Hx) as (Hokx & _); apply (region_low x i Hokx Hr)).
    destruct Hx as [->|Hx].
    - rewrite writes_keep; auto.
      + rewrite wstep_bits by assumption. now rewrite Hr.
      + intros z Hz. destruct (Hall z (or_intror Hz)) as (A & A'). split; [exact A|]. split; [exact A'|].
        apply (disj_regions x z i); auto.
    - apply IH; auto. intros z Hz. apply Hall. now right.
  Qed.

  Lemma writes_range : forall fs B, (forall y, In y fs -> bf_ok y /\ val_ok y) -> 0 <= B < 256 ->
    0 <= fold_left wstep fs B < 256.
  Proof.
    induction fs as [|y fs IH]; intros B H HB; cbn [fold_left]; [exact HB|].
    destruct (H y (or_introl eq_refl)) as (Hok & Hv).
    apply IH; [intros z Hz; apply H; now right | now apply wstep_range].
  Qed.

  (* reading a field from the final byte *)
  Lemma field_read fs B x :
    pairwise fs -> (forall y, In y fs -> bf_ok y /\ val_ok y) -> In x fs ->
    (fold_left wstep fs B / 2 ^ b_pos x) mod 2 ^ b_len x = bf_val x.
  Proof.
    intros PW Hall Hx. destruct (Hall x Hx) as (Hok & Hv). pose proof Hok as (Hp & Hl & Hs).
    apply Z.bits_inj'. intros t Ht.
    destruct (Z.lt_ge_cases t (b_len x)) as [L|G].
    - rewrite Z.mod_pow2_bits_low by lia. rewrite Z.div_pow2_bits by lia.
      rewrite (field_bits fs B x (t + b_pos x) PW Hall Hx) by (unfold in_region; lia).
      f_equal. lia.
    - rewrite Z.mod_pow2_bits_high by lia. symmetry. now apply val_high_bits.
  Qed.

  (* the closed form: with disjoint ranges, writing is OR-ing *)
  Definition clear_in (B : Z) (x : bfield) : Prop := forall i, in_region x i = true -> Z.testbit B i = false.

  Lemma wstep_is_or B x : bf_ok x -> val_ok x -> clear_in B x -> wstep B x = ostep B x.
  Proof.
    intros Hok Hv Hc. apply Z.bits_inj'. intros i Hi. rewrite wstep_bits by assumption.
    unfold ostep. rewrite Z.lor_spec, data_testbit by assumption.
    destruct (in_region x i) eqn:R; [rewrite (Hc i R); reflexivity | cbn [andb]; now rewrite orb_false_r].
  Qed.

  Lemma writes_are_or : forall fs B,
    pairwise fs -> (forall y, In y fs -> bf_ok y /\ val_ok y) -> (forall y, In y fs -> clear_in B y) ->
    fold_left wstep fs B = fold_left ostep fs B.
  Proof.
    induction fs as [|y fs IH]; intros B PW Hall Hc; cbn [fold_left]; [reflexivity|].
    destruct (pairwise_tail y fs PW) as (PW' & Dy).
    destruct (Hall y (or_introl eq_refl)) as (Hok & Hv).
    rewrite (wstep_is_or B y Hok Hv (Hc y (or_introl eq_refl))).
    apply IH; auto.
    - intros z Hz. apply Hall. now right.
    - intros z Hz i Hr. unfold ostep. rewrite Z.lor_spec.
      rewrite (Hc z (or_intror Hz) i Hr). cbn [orb].
      destruct (Hall z (or_intror Hz)) as (Hokz & _).
      rewrite data_testbit by (auto; apply (region_low z i Hokz Hr)).
      assert (Dzy : bf_disj z y). { destruct (Dy z Hz) as [D|D]; [right | left]; exact D. }
      now rewrite (disj_regions z y i Dzy Hr).
  Qed.

  Lemma writes_pack fs :
    pairwise fs -> (forall y, In y fs -> bf_ok y /\ val_ok y) -> fold_left wstep fs 0 = pack fs.
  Proof. intros PW Hall. apply writes_are_or; auto. intros y _ i _. apply Z.bits_0. Qed.

  (* the used masks never collide *)
  Lemma masks_disjoint x y : bf_ok x -> bf_ok y -> bf_disj x y -> Z.land (bf_mask x) (bf_mask y) = 0.
  Proof.
    intros Hx Hy D. apply Z.bits_inj'. intros i Hi. rewrite Z.land_spec, Z.bits_0, !mask_testbit by assumption.
    destruct (in_region x i) eqn:R; [|reflexivity]. now rewrite (disj_regions x y i D R).
  Qed.
End Bits.

(* ====================================================================================== *)
(* the codec on such parameters                                                           *)
(* ====================================================================================== *)
Definition bf_dop (x : bfield) : dop := DSimple (Std BUint None true (b_len x) None) CIdent BUint.
Definition bf_param (x : bfield) : param := P (b_name x) (Some 0) (Some (b_pos x)) (KValue (bf_dop x) None).

Lemma slice1 (m : list Z) b : slice (blen m) 1 (m ++ [b]) = [b].
Proof. exact (slice_at_end m [b]). Qed.
Lemma splice1 (m : list Z) b y : splice (blen m) [y] (m ++ [b]) = m ++ [y].
Proof. exact (splice_at_end m [b] [y] eq_refl). Qed.
Lemma grow_full (m : list Z) b : grow (blen m + 1) (m ++ [b]) = m ++ [b].
Proof.
  unfold grow. rewrite blen_app. change (blen [b]) with 1. rewrite Z.sub_diag. change (zeros 0) with (@nil Z).
  apply app_nil_r.
Qed.

(* one masked write into the byte which is being assembled at the end of the message *)
Lemma emplace_cell msg0 used0 bs us B U new k org eop lk kp rq w :
  blen used0 = blen msg0 ->
  (bs = [] /\ us = [] /\ B = 0 /\ U = 0) \/ (bs = [B] /\ us = [U]) ->
  emplace_bytes (mkE (msg0 ++ bs) (used0 ++ us) org (blen msg0) 0 eop lk kp rq w) [new] (Some [k]) =
  Ok (mkE (msg0 ++ [Z.lor (Z.land B (Z.lnot k)) (Z.land new k)]) (used0 ++ [Z.lor U k]) org (blen msg0 + 1) 0
          eop lk kp rq (w || (negb (Z.land U k =? 0) || false))).
Proof.
  intros Hu Hc.
  assert (G : grow (blen msg0 + 1) (msg0 ++ bs) = msg0 ++ [B] /\ grow (blen msg0 + 1) (used0 ++ us) = used0 ++ [U]).
  { destruct Hc as [(-> & -> & -> & ->)|(-> & ->)].
    - rewrite !app_nil_r. rewrite (grow_at_end (blen msg0) 1 msg0) by reflexivity.
      rewrite (grow_at_end (blen msg0) 1 used0) by exact Hu. split; reflexivity.
    - split; [apply grow_full|]. rewrite <- Hu. apply grow_full. }
  destruct G as (G1 & G2).
  unfold emplace_bytes. cbn [e_bit e_cur e_msg e_used e_origin e_eop e_lkeys e_keypos e_req e_warn Z.eqb negb].
  change (blen [new]) with 1. change (blen [k] <? 1) with false. cbv iota.
  rewrite G1, G2.
  assert (Su : slice (blen msg0) 1 (used0 ++ [U]) = [U]) by (rewrite <- Hu; apply slice1).
  assert (Pu : forall y, splice (blen msg0) [y] (used0 ++ [U]) = used0 ++ [y]) by (intros y; rewrite <- Hu; apply splice1).
  rewrite slice1, Su. change (take 1 [k]) with [k]. cbn [masked_write mask_or mask_clash].
  rewrite splice1, Pu. reflexivity.
Qed.

Ltac Zify.zify_post_hook ::= Z.div_mod_to_equations.

Lemma to_be_1 x : 0 <= x < 256 -> to_be 1 x = [x].
Proof. intros H. unfold to_be. cbn [to_le rev app]. now rewrite Z.mod_small. Qed.

(* the state while the byte at offset o is being assembled *)
Definition cellst (s : estate) (o : Z) (msg0 used0 : list Z) (B U : Z) : Prop :=
  e_bit s = 0 /\ e_origin s = o /\ blen msg0 = o /\ blen used0 = o /\
  ((e_msg s = msg0 /\ e_used s = used0 /\ B = 0 /\ U = 0) \/ (e_msg s = msg0 ++ [B] /\ e_used s = used0 ++ [U])).

Lemma enc_bf vv f x kv s o msg0 used0 B U :
  cellst s o msg0 used0 B U -> bf_ok x -> val_ok vv x ->
  lookup (b_name x) kv = Some (VInt (bf_val vv x)) -> Z.land U (bf_mask x) = 0 ->
  exists s', enc_param (S (S f)) (bf_param x) kv s = Ok s' /\
             cellst s' o msg0 used0 (wstep vv B x) (mstep U x) /\
             e_msg s' = msg0 ++ [wstep vv B x] /\ e_used s' = used0 ++ [mstep U x] /\
             e_cur s' = o + 1 /\ e_warn s' = e_warn s.
Proof.
  intros (Hbit & Horg & Hm0 & Hu0 & Hcell) Hok Hv Hl Hclash. pose proof Hok as (Hp & Hlen & Hs).
  pose proof (mask_range x Hok) as Hmr. pose proof (data_range vv x Hok Hv) as Hdr.
  destruct s as [msg used org cur bit eop lk kp rq w]. cbn [e_bit e_origin e_msg e_used e_warn] in *. subst bit org.
  assert (Hcell' : exists bs us, msg = msg0 ++ bs /\ used = used0 ++ us /\
                    ((bs = [] /\ us = [] /\ B = 0 /\ U = 0) \/ (bs = [B] /\ us = [U]))).
  { destruct Hcell as [(-> & -> & -> & ->)|(-> & ->)].
    - exists [], []. rewrite !app_nil_r. split; [reflexivity|]. split; [reflexivity|]. left. auto.
    - exists [B], [U]. split; [reflexivity|]. split; [reflexivity|]. right. auto. }
  destruct Hcell' as (bs & us & -> & -> & Hc).
  eexists. split.
  - unfold bf_param, bf_dop. cbn [enc_param]. unfold is_required. cbn [pkind_of]. rewrite Hl.
    cbn [negb orb guard bind]. unfold vget. rewrite Hl. cbn [is_none negb guard bind opt_or0].
    cbn [set_cur set_bit e_origin e_msg e_used e_cur e_bit e_eop e_lkeys e_keypos e_req e_warn].
    cbn [enc_dop valid_phys isinstance_bt guard bind p2i valid_int dct_bt enc_dct std_apply_mask std_used_mask].
    unfold emplace_atomic. rewrite raw_of_uint by (unfold val_ok in Hv; lia). cbn [bind].
    replace (b_len x =? 0) with false by lia.
    replace (is_numeric BUint && (64 <? b_len x)) with false by (cbn; lia).
    cbn [e_bit set_bit e_msg e_used e_origin e_cur e_eop e_lkeys e_keypos e_req e_warn].
    replace (nbytes_of (b_len x) (b_pos x)) with 1 by (unfold nbytes_of; lia).
    change (Z.to_nat 1) with 1%nat. change (256 ^ 1) with 256.
    fold (bf_mask x).
    replace (256 <=? bf_mask x) with false by lia. rewrite andb_false_r.
    cbn [negb andb]. fold (bf_val vv x). fold (bf_data vv x).
    rewrite !to_be_1 by assumption.
    rewrite <- Hm0. rewrite Z.add_0_r.
    unfold set_bit at 1 2, set_cur. cbn [e_msg e_used e_origin e_cur e_bit e_eop e_lkeys e_keypos e_req e_warn].
    rewrite (emplace_cell msg0 used0 bs us B U (bf_data vv x) (bf_mask x) (blen msg0) eop lk kp rq w) by (auto; congruence).
    cbn [bind set_bit]. reflexivity.
  - unfold set_bit. cbn [e_bit e_origin e_msg e_used e_cur e_warn]. fold (wstep vv B x). fold (mstep U x).
    split; [|split; [reflexivity | split; [reflexivity | split; [lia|]]]].
    + unfold cellst. cbn [e_bit e_origin e_msg e_used]. repeat split; auto.
    + rewrite Hclash. cbn. now rewrite orb_false_r.
Qed.

Lemma cellst_set_eop s b o msg0 used0 B U : cellst s o msg0 used0 B U -> cellst (set_eop s b) o msg0 used0 B U.
Proof. intros H. exact H. Qed.

(* ---------- the encoder loop over the fields ---------- *)
Lemma enc_bf_loop vv f kv n oe o msg0 used0 : forall fs s i B U,
  cellst s o msg0 used0 B U ->
  (forall x, In x fs -> bf_ok x /\ val_ok vv x /\ lookup (b_name x) kv = Some (VInt (bf_val vv x))) ->
  pairwise fs -> (forall x, In x fs -> Z.land U (bf_mask x) = 0) ->
  exists s', enc_go (S (S f)) kv n oe (map bf_param fs) i s = Ok s' /\
             cellst s' o msg0 used0 (fold_left (wstep vv) fs B) (fold_left mstep fs U) /\
             e_warn s' = e_warn s /\
             (fs <> [] -> e_msg s' = msg0 ++ [fold_left (wstep vv) fs B] /\
                          e_used s' = used0 ++ [fold_left mstep fs U] /\ e_cur s' = o + 1).
Proof.
  induction fs as [|x fs IH]; intros s i B U Hc Hall PW HU.
  - exists s. cbn [map enc_go fold_left]. split; [reflexivity|]. split; [exact Hc|]. split; [reflexivity|]. intros N. contradiction.
  - destruct (Hall x (or_introl eq_refl)) as (Hok & Hv & Hl).
    destruct (pairwise_tail x fs PW) as (PW' & Dx).
    set (s0 := if i =? n - 1 then set_eop s oe else s).
    assert (Hc0 : cellst s0 o msg0 used0 B U) by (unfold s0; destruct (i =? n - 1); [now apply cellst_set_eop | exact Hc]).
    assert (Hw0 : e_warn s0 = e_warn s) by (unfold s0; destruct (i =? n - 1); reflexivity).
    destruct (enc_bf vv f x kv s0 o msg0 used0 B U Hc0 Hok Hv Hl (HU x (or_introl eq_refl)))
      as (s1 & He1 & Hc1 & Hm1 & Hu1 & Hcur1 & Hw1).
    assert (HU' : forall y, In y fs -> Z.land (mstep U x) (bf_mask y) = 0).
    { intros y Hy. unfold mstep. rewrite Z.land_lor_distr_l. rewrite (HU y (or_intror Hy)).
      destruct (Hall y (or_intror Hy)) as (Hoky & _).
      rewrite (masks_disjoint x y Hok Hoky (Dx y Hy)). reflexivity. }
    destruct (IH s1 (i + 1) (wstep vv B x) (mstep U x) Hc1 (fun y Hy => Hall y (or_intror Hy)) PW' HU')
      as (s' & He2 & Hc2 & Hw2 & Hne).
    exists s'. split; [|split; [|split]].
    + cbn [map enc_go]. fold s0. rewrite He1. cbn [bind]. exact He2.
    + cbn [fold_left]. exact Hc2.
    + congruence.
    + intros _. cbn [fold_left]. destruct fs as [|y fs'].
      * cbn [map enc_go] in He2. injection He2 as <-. cbn [fold_left]. auto.
      * apply Hne. discriminate.
Qed.

(* ---------- decoding one field from the assembled byte ---------- *)
Lemma dec_bf f x M0 Bf r c bit lk v :
  bf_ok x -> 0 <= Bf < 256 -> (Bf / 2 ^ b_pos x) mod 2 ^ b_len x = v ->
  dec_param (S (S f)) (bf_param x) (mkD ((M0 ++ [Bf]) ++ r) (blen M0) c bit lk) =
  Ok (VInt v, mkD ((M0 ++ [Bf]) ++ r) (blen M0) (blen M0 + 1) 0 lk).
Proof.
  intros Hok HB Hv. pose proof Hok as (Hp & Hl & Hs).
  unfold bf_param, bf_dop. cbn [dec_param opt_or0]. cbn [dset_cur dset_bit d_msg d_origin d_cur d_bit d_lkeys].
  cbn [dec_dop dec_dct]. unfold extract_atomic. unfold dset_bit, dset_cur. cbn [d_msg d_origin d_cur d_bit d_lkeys].
  replace (b_len x =? 0) with false by lia.
  replace (nbytes_of (b_len x) (b_pos x)) with 1 by (unfold nbytes_of; lia).
  rewrite Z.add_0_r.
  assert (Hlen : blen ((M0 ++ [Bf]) ++ r) <? blen M0 + 1 = false).
  { rewrite !blen_app. change (blen [Bf]) with 1. pose proof (blen_nonneg r). lia. }
  rewrite Hlen. cbn [is_numeric negb andb].
  replace (64 <? b_len x) with false by lia.
  assert (Hsl : slice (blen M0) 1 ((M0 ++ [Bf]) ++ r) = [Bf]).
  { rewrite slice_app_l; [apply slice1 | apply blen_nonneg | lia | rewrite blen_app; change (blen [Bf]) with 1; lia]. }
  rewrite Hsl. change (be_int [Bf]) with (Bf + 256 * 0). rewrite Z.mul_0_r, Z.add_0_r. rewrite Hv.
  cbn [value_of_raw bind valid_int dct_bt isinstance_bt i2p fst snd dset_bit d_msg d_origin d_cur d_bit d_lkeys].
  reflexivity.
Qed.

Definition bf_member (vv : name -> Z) (x : bfield) : member :=
  mkM (bf_param x) (Some (VInt (bf_val vv x))) (VInt (bf_val vv x)).

Lemma dec_bf_loop vv f M0 Bf r lk : forall fs c bit acc,
  0 <= Bf < 256 ->
  (forall x, In x fs -> bf_ok x /\ (Bf / 2 ^ b_pos x) mod 2 ^ b_len x = bf_val vv x) -> fs <> [] ->
  dec_go (S (S f)) (map bf_param fs) (mkD ((M0 ++ [Bf]) ++ r) (blen M0) c bit lk) acc =
  Ok (fold_left out_step (map (bf_member vv) fs) acc, mkD ((M0 ++ [Bf]) ++ r) (blen M0) (blen M0 + 1) 0 lk).
Proof.
  induction fs as [|x fs IH]; intros c bit acc HB Hall Hne; [contradiction|].
  destruct (Hall x (or_introl eq_refl)) as (Hok & Hv).
  cbn [map dec_go]. rewrite (dec_bf f x M0 Bf r c bit lk (bf_val vv x) Hok HB Hv). cbn [bind].
  destruct fs as [|y fs'].
  - cbn [map dec_go fold_left]. reflexivity.
  - rewrite (IH (blen M0 + 1) 0 _ HB (fun z Hz => Hall z (or_intror Hz)) ltac:(discriminate)).
    cbn [map fold_left]. reflexivity.
Qed.

(* ====================================================================================== *)
(* the structure of bit fields as a good member                                           *)
(* ====================================================================================== *)
Definition packed_param (nm : name) (fs : list bfield) : param :=
  P nm None None (KValue (DStruct (map bf_param fs) None) None).

Definition packed_ok (vv : name -> Z) (fs : list bfield) : Prop :=
  fs <> [] /\ pairwise fs /\ (forall x, In x fs -> bf_ok x /\ val_ok vv x) /\ NoDup (map b_name fs).

Theorem packed_rt vv nm fs :
  packed_ok vv fs ->
  let ms := map (bf_member vv) fs in
  let p := packed_param nm fs in
  let vin := Some (VDict (in_dict ms)) in
  appends_ge 5 5 p vin (VDict (out_dict ms)) /\ writes_ge 5 p vin [pack vv fs] /\ no_lenkey p.
Proof.
  intros (Hne & PW & Hall & ND) ms p vin.
  assert (Eps : map m_p ms = map bf_param fs) by (unfold ms; rewrite map_map; reflexivity).
  assert (Enm : map m_name ms = map b_name fs) by (unfold ms; rewrite map_map; reflexivity).
  assert (NDm : NoDup (map m_name ms)) by (rewrite Enm; exact ND).
  set (kv' := in_dict ms).
  assert (Hlk : forall x, In x fs -> lookup (b_name x) kv' = Some (VInt (bf_val vv x))).
  { intros x Hx. assert (Hin : In (bf_member vv x) ms) by (unfold ms; now apply in_map).
    exact (lookup_in_dict ms (bf_member vv x) NDm Hin). }
  set (Bf := fold_left (wstep vv) fs 0).
  assert (HBf : 0 <= Bf < 256) by (apply writes_range; [exact Hall | lia]).
  assert (Epack : Bf = pack vv fs) by (apply writes_pack; assumption).
  assert (Core : forall fe fd s kv, at_end s -> lookup nm kv = vin ->
            exists s', enc_param (S (S (S (S (S fe))))) p kv s = Ok s' /\ at_end s' /\ e_warn s' = e_warn s /\
                       e_origin s' = e_origin s /\ e_msg s' = e_msg s ++ [Bf] /\
                       forall r o lk, dec_param (S (S (S (S (S fd))))) p (mkD (e_msg s' ++ r) o (e_cur s) 0 lk) =
                                      Ok (VDict (out_dict ms), mkD (e_msg s' ++ r) o (e_cur s') 0 lk)).
  { intros fe fd s kv Hend Hl. pose proof Hend as (Hbit & Hcur & Hused & Hokm).
    set (s0 := set_eop (set_origin (set_bit s 0) (e_cur (set_bit s 0))) false).
    assert (Hc0 : cellst s0 (e_cur s) (e_msg s) (e_used s) 0 0).
    { unfold cellst, s0. cbn [set_eop set_origin set_bit e_bit e_origin e_msg e_used e_cur].
      split; [reflexivity|]. split; [reflexivity|]. split; [symmetry; exact Hcur|]. split; [exact Hused|]. left. auto. }
    destruct (enc_bf_loop vv fe kv' (zlen (map bf_param fs)) (e_eop (set_bit s 0)) (e_cur s) (e_msg s) (e_used s) fs s0 0 0 0 Hc0)
      as (s1 & He1 & Hc1 & Hw1 & Hfin).
    { intros x Hx. destruct (Hall x Hx) as (A & B). split; [exact A|]. split; [exact B | now apply Hlk]. }
    { exact PW. }
    { intros x _. apply Z.land_0_l. }
    destruct (Hfin Hne) as (Hm1 & Hu1 & Hcur1). fold Bf in Hm1.
    destruct Hc1 as (Hbit1 & Horg1 & _).
    set (sfin := set_origin (set_cur (set_eop s1 false) (e_cur (set_eop s1 false))) (e_origin (set_bit s 0))).
    exists (set_bit sfin 0).
    split; [|split; [|split; [|split; [|split]]]].
    - unfold p, packed_param. cbn [enc_param]. unfold is_required. cbn [pkind_of]. unfold vin in Hl. rewrite Hl.
      cbn [negb orb guard bind]. unfold vget. rewrite Hl. cbn [is_none negb guard bind opt_or0].
      cbn [enc_dop]. cbn [enc_composite].
      no_own_keys ltac:(intros q Hq; apply in_map_iff in Hq as (x & <- & _); exact I).
      cbn [set_bit e_bit Z.eqb guard bind].
      pose proof (known_members ms ms (incl_refl ms)) as Hkm. rewrite Eps in Hkm. fold kv' in Hkm. fold kv'. rewrite Hkm.
      cbn [guard bind].
      match goal with |- bind (bind (bind ?X _) _) _ = _ =>
        change X with (enc_go (S (S fe)) kv' (zlen (map bf_param fs)) (e_eop (set_bit s 0)) (map bf_param fs) 0 s0) end.
      rewrite He1. cbn [bind].
      pose proof (keys_none (S (S fe)) (map bf_param fs) (set_eop s1 false)) as Hkeys. unfold keys_go in Hkeys.
      rewrite Hkeys; [reflexivity|].
      intros q Hq. apply in_map_iff in Hq as (x & <- & _). exact I.
    - unfold sfin, at_end. cbn [set_bit set_origin set_cur set_eop e_bit e_cur e_msg e_used].
      split; [reflexivity|]. rewrite Hm1, Hu1, Hcur1, !blen_app. change (blen [Bf]) with 1.
      change (blen [fold_left mstep fs 0]) with 1.
      split; [lia|]. split; [lia|].
      rewrite bytes_ok_app, Hokm. cbn [bytes_ok forallb andb]. unfold byte_ok. lia.
    - cbn. exact Hw1.
    - reflexivity.
    - cbn [set_bit sfin set_origin set_cur set_eop e_msg]. exact Hm1.
    - intros r o lk. unfold p, packed_param. cbn [dec_param opt_or0].
      cbn [set_bit sfin set_origin set_cur set_eop e_msg e_cur].
      change (dset_bit (mkD (e_msg s1 ++ r) o (e_cur s) 0 lk) 0) with (mkD (e_msg s1 ++ r) o (e_cur s) 0 lk).
      cbn [dec_dop]. cbn [dec_composite]. cbn [d_origin d_cur].
      change (dset_origin (mkD (e_msg s1 ++ r) o (e_cur s) 0 lk) (e_cur s)) with (mkD (e_msg s1 ++ r) (e_cur s) (e_cur s) 0 lk).
      rewrite Hm1, Hcur.
      match goal with |- bind (bind (bind ?X _) _) _ = _ =>
        change X with (dec_go (S (S fd)) (map bf_param fs) (mkD ((e_msg s ++ [Bf]) ++ r) (blen (e_msg s)) (blen (e_msg s)) 0 lk) []) end.
      rewrite (dec_bf_loop vv fd (e_msg s) Bf r lk fs (blen (e_msg s)) 0 [] HBf); [|
        intros x Hx; destruct (Hall x Hx) as (A & _); split; [exact A | now apply field_read] | exact Hne].
      cbn [bind fst snd dset_origin dset_bit d_msg d_origin d_cur d_bit d_lkeys].
      fold ms. rewrite fold_out_nodup by (auto; intros m _ []). cbn [app].
      rewrite Hcur1, Hcur. reflexivity. }
  split; [|split].
  - intros fe fd Hfe Hfd s kv Hend Hl. destruct fe as [|[|[|[|[|fe]]]]]; try lia. destruct fd as [|[|[|[|[|fd]]]]]; try lia.
    destruct (Core fe fd s kv Hend Hl) as (s' & A & B & C & D & E & F).
    exists s', [Bf]. repeat split; auto; apply B.
  - intros fe Hfe s kv Hend Hl. destruct fe as [|[|[|[|[|fe]]]]]; try lia.
    destruct (Core fe 0%nat s kv Hend Hl) as (s' & A & B & C & D & E & _).
    exists s'. rewrite <- Epack. repeat split; auto; apply B.
  - exact I.
Qed.

Definition packed_rm (vv : name -> Z) (nm : name) (fs : list bfield) : rmem :=
  mkRM (mkM (packed_param nm fs) (Some (VDict (in_dict (map (bf_member vv) fs)))) (VDict (out_dict (map (bf_member vv) fs))))
       [pack vv fs].

Lemma packed_rgood vv nm fs : packed_ok vv fs -> rgood 5 (packed_rm vv nm fs).
Proof. intros H. unfold rgood, packed_rm. cbn [r_m r_w m_p m_in m_out]. exact (packed_rt vv nm fs H). Qed.

(* with disjoint ranges OR-ing is adding *)
Lemma pack_is_sum vv fs : packed_ok vv fs -> pack vv fs = fold_left (fun a x => a + bf_data vv x) fs 0.
Proof.
  intros (_ & PW & Hall & _). unfold pack.
  assert (G : forall l B, pairwise l -> (forall x, In x l -> bf_ok x /\ val_ok vv x) -> 0 <= B ->
              (forall x, In x l -> clear_in B x) ->
              fold_left (ostep vv) l B = fold_left (fun a x => a + bf_data vv x) l B).
  { induction l as [|y l IH]; intros B PWl Hl HB Hc; cbn [fold_left]; [reflexivity|].
    destruct (pairwise_tail y l PWl) as (PW' & Dy). destruct (Hl y (or_introl eq_refl)) as (Hok & Hv).
    assert (E : ostep vv B y = B + bf_data vv y).
    { unfold ostep.
      assert (L0 : Z.land B (bf_data vv y) = 0); [|now rewrite <- (Z.lxor_lor _ _ L0), <- (Z.add_nocarry_lxor _ _ L0)].
      apply Z.bits_inj'. intros i Hi. rewrite Z.land_spec, Z.bits_0, data_testbit by assumption.
      destruct (in_region y i) eqn:R; [rewrite (Hc y (or_introl eq_refl) i R); reflexivity | now rewrite andb_false_r]. }
    rewrite E. rewrite <- E. apply IH; auto.
    - intros z Hz. apply Hl. now right.
    - unfold ostep. apply Z.lor_nonneg. split; [exact HB|]. apply (data_range vv y Hok Hv).
    - intros z Hz i Hr. unfold ostep. rewrite Z.lor_spec. rewrite (Hc z (or_intror Hz) i Hr). cbn [orb].
      destruct (Hl z (or_intror Hz)) as (Hokz & _).
      rewrite data_testbit by (auto; apply (region_low z i Hokz Hr)).
      assert (Dzy : bf_disj z y). { destruct (Dy z Hz) as [D|D]; [right | left]; exact D. }
      now rewrite (disj_regions z y i Dzy Hr). }
  apply G; auto; [lia|]. intros x _ i _. apply Z.bits_0.
Qed.

(* a response: id, a status byte {ready: bit 0, mode: bits 1..3, error: bit 7 -- listed out of order}, a word *)
Example packed_example :
  let vv (z : Z) := fun _ : name => VInt z in
  let flags := [mkBF [101] 7 1; mkBF [114] 0 1; mkBF [109] 1 3] in
  let bv := fun nm : name => match nm with [101] => 1 | [114] => 1 | [109] => 5 | _ => 0 end in
  let rs := [leaf_rm (mkF [115] 8 BUint None true BUint (Some (VInt 98))) (vv 98) [98];
             packed_rm bv [102] flags;
             leaf_rm (mkF [119] 16 BUint None true BUint None) (vv 258) [1; 2]] in
  rbytes rs = [98; 139; 1; 2] /\
  encode_msg (map m_p (rms rs)) None (VDict (in_dict (rms rs))) = Ok (rbytes rs, false) /\
  decode_msg (map m_p (rms rs)) (rbytes rs) = Ok (VDict (out_dict (rms rs))).
Proof. cbv zeta. repeat split; vm_compute; reflexivity. Qed.

Example packed_premises :
  let flags := [mkBF [101] 7 1; mkBF [114] 0 1; mkBF [109] 1 3] in
  let bv := fun nm : name => match nm with [101] => 1 | [114] => 1 | [109] => 5 | _ => 0 end in
  packed_ok bv flags.
Proof.
  intros flags bv. split; [discriminate|]. split; [|split].
  - split; [repeat constructor; cbn; intuition discriminate|].
    intros x y [<-|[<-|[<-|[]]]] [<-|[<-|[<-|[]]]] N; try contradiction; unfold bf_disj; cbn; lia.
  - intros x [<-|[<-|[<-|[]]]]; unfold bf_ok, val_ok, bf_val; cbn; lia.
  - repeat constructor; cbn; intuition discriminate.
Qed.
