(* further leaf kinds as good members (FieldProofs.v): whatever the raw encoder accepts for a signed integer (two's
   complement, one's complement, sign-magnitude), a byte field or an ISO-8859-1 string of a standard-length object is
   written as the big-endian bytes of the raw value (byte-swapped for little-endian numbers) and read back. *)
From Coq Require Import ZArith List Bool Lia.
From OV Require Import Base.Bytes Base.Wire Generated Model.Str Model.Codec
     Proofs.BytesProofs Proofs.AtomicProofs Proofs.CodecProps Proofs.FlatProofs Proofs.TreeProofs Proofs.TreeWireProofs
     Proofs.FieldProofs.
Import ListNotations.
Open Scope Z_scope.

(* the general form: a value which the raw encoder maps to raw, and which the raw decoder maps back *)
Lemma encodable_leaf_rgood x v raw :
  sane (fun _ => v) x -> 0 <= raw < 2 ^ f_bl x ->
  raw_of v (f_bl x) (f_bt x) (f_en x) (f_hl x) = Ok raw ->
  value_of_raw raw (f_bl x) (f_bt x) (f_en x) (f_hl x) = Ok v ->
  rgood 2 (leaf_rm x (fun _ => v) (wire_bytes x raw)).
Proof.
  intros Hs Hr Ho Hv. destruct (raw_leaf_wf x (fun _ => v) raw Hs Hr Ho Hv) as [Hs' Hc]. now apply leaf_rgood.
Qed.

Lemma int_leaf_rgood nm bl en hl z raw :
  0 < bl <= 64 -> (en = None \/ en = Some Enc2C \/ en = Some Enc1C \/ en = Some EncSM) ->
  raw_of (VInt z) bl BInt en hl = Ok raw ->
  rgood 2 (leaf_rm (mkF nm bl BInt en hl BInt None) (fun _ => VInt z) (wire_bytes (mkF nm bl BInt en hl BInt None) raw)).
Proof.
  intros Hbl Hen Hraw. destruct (int_raw_roundtrip z bl en hl raw ltac:(lia) Hen Hraw) as [Hr Hv].
  apply encodable_leaf_rgood; cbn [f_bl f_bt f_en f_hl f_pt f_const fname f_name]; auto.
  unfold sane. cbn [f_bl f_bt f_pt f_const fname f_name is_numeric andb isinstance_bt].
  split; [lia|]. split; [apply Z.ltb_ge; lia|]. auto.
Qed.

Lemma bytes_leaf_rgood nm hl b :
  bytes_ok b = true -> 0 < blen b ->
  rgood 2 (leaf_rm (mkF nm (8 * blen b) BBytes None hl BBytes None) (fun _ => VBytes b)
                   (wire_bytes (mkF nm (8 * blen b) BBytes None hl BBytes None) (be_int b))).
Proof.
  intros Hb Hl.
  assert (Hraw : raw_of (VBytes b) (8 * blen b) BBytes None hl = Ok (be_int b)).
  { cbn [raw_of]. now rewrite Z.eqb_refl. }
  destruct (bytes_raw_roundtrip b (8 * blen b) None hl (be_int b) Hb Hraw) as [Hr Hv].
  apply encodable_leaf_rgood; cbn [f_bl f_bt f_en f_hl f_pt f_const fname f_name]; auto.
  unfold sane. cbn [f_bl f_bt f_pt f_const fname f_name is_numeric andb isinstance_bt].
  split; [lia|]. auto.
Qed.

Lemma ascii_leaf_rgood nm bl hl s raw :
  0 < bl -> raw_of (VStr s) bl BAscii None hl = Ok raw ->
  rgood 2 (leaf_rm (mkF nm bl BAscii None hl BAscii None) (fun _ => VStr s) (wire_bytes (mkF nm bl BAscii None hl BAscii None) raw)).
Proof.
  intros Hbl Hraw. destruct (latin1_raw_roundtrip s bl hl raw Hraw) as [Hr Hv].
  apply encodable_leaf_rgood; cbn [f_bl f_bt f_en f_hl f_pt f_const fname f_name]; auto.
  unfold sane. cbn [f_bl f_bt f_pt f_const fname f_name is_numeric andb isinstance_bt].
  split; [lia|]. auto.
Qed.

(* a request: id, a signed byte -2 in sign-magnitude, a little-endian two's complement word -2, three bytes, "Hi" *)
Example leaf_kinds_example :
  let vv (z : Z) := fun _ : name => VInt z in
  let sm := mkF [97] 8 BInt (Some EncSM) true BInt None in
  let tc := mkF [98] 16 BInt None false BInt None in
  let bf := mkF [99] 24 BBytes None true BBytes None in
  let st := mkF [100] 16 BAscii None true BAscii None in
  let rs := [leaf_rm (mkF [115] 8 BUint None true BUint (Some (VInt 34))) (vv 34) [34];
             leaf_rm sm (vv (-2)) (wire_bytes sm 130);
             leaf_rm tc (vv (-2)) (wire_bytes tc 65534);
             leaf_rm bf (fun _ => VBytes [1; 2; 3]) (wire_bytes bf (be_int [1; 2; 3]));
             leaf_rm st (fun _ => VStr [72; 105]) (wire_bytes st 18537)] in
  rbytes rs = [34; 130; 254; 255; 1; 2; 3; 72; 105] /\
  encode_msg (map m_p (rms rs)) None (VDict (in_dict (rms rs))) = Ok (rbytes rs, false) /\
  decode_msg (map m_p (rms rs)) (rbytes rs) = Ok (VDict (out_dict (rms rs))).
Proof. cbv zeta. repeat split; vm_compute; reflexivity. Qed.

Example leaf_kinds_premises :
  let vv (z : Z) := fun _ : name => VInt z in
  let sm := mkF [97] 8 BInt (Some EncSM) true BInt None in
  let tc := mkF [98] 16 BInt None false BInt None in
  let bf := mkF [99] 24 BBytes None true BBytes None in
  let st := mkF [100] 16 BAscii None true BAscii None in
  rgood 2 (leaf_rm sm (vv (-2)) (wire_bytes sm 130)) /\ rgood 2 (leaf_rm tc (vv (-2)) (wire_bytes tc 65534)) /\
  rgood 2 (leaf_rm bf (fun _ => VBytes [1; 2; 3]) (wire_bytes bf (be_int [1; 2; 3]))) /\
  rgood 2 (leaf_rm st (fun _ => VStr [72; 105]) (wire_bytes st 18537)).
Proof.
  intros vv sm tc bf st. split; [|split; [|split]].
  - apply int_leaf_rgood; [lia | auto | vm_compute; reflexivity].
  - apply int_leaf_rgood; [lia | auto | vm_compute; reflexivity].
  - apply (bytes_leaf_rgood [99] true [1; 2; 3]); [reflexivity | cbn; lia].
  - apply ascii_leaf_rgood; [lia | vm_compute; reflexivity].
Qed.
