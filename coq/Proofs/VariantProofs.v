(* Proofs about Model/Variant.v *)
From Coq Require Import ZArith List Bool Lia.
From OV Require Import Base.Wire Model.Variant.
Import ListNotations.
Open Scope Z_scope.

Section P.
  Variable ecu : Z -> Z.
  Variable matchf : Z -> Z -> bool.

  (* the cache only ever holds what the (deterministic) ECU answers *)
  Definition cache_ok (s : mstate) : Prop := forall k v, clookup k (cache s) = Some v -> v = ecu k.

  Lemma ask_resp uc s p : cache_ok s ->
    fst (ask ecu uc s p) = ecu (mp_req p) /\ cache_ok (snd (ask ecu uc s p)).
  Proof.
    intros C. unfold ask. destruct uc; simpl.
    - destruct (clookup (mp_req p) (cache s)) as [r|] eqn:E; simpl.
      + split; [now apply C | exact C].
      + split; [reflexivity|]. intros k v. simpl. destruct (mp_req p =? k) eqn:Ek.
        * apply Z.eqb_eq in Ek. subst. now intros [= <-].
        * apply C.
    - split; [reflexivity | exact C].
  Qed.

  Lemma run_pattern_spec uc ps : forall s, cache_ok s ->
    fst (run_pattern ecu matchf uc s ps) = forallb (param_ok ecu matchf) ps /\
    cache_ok (snd (run_pattern ecu matchf uc s ps)).
  Proof.
    induction ps as [|p ps IH]; intros s C; simpl; [auto|].
    destruct (ask ecu uc s p) as [resp s1] eqn:A.
    destruct (ask_resp uc s p C) as [R C1]. rewrite A in R, C1. simpl in R, C1. subst resp.
    unfold param_ok at 1. destruct (matchf (mp_id p) (ecu (mp_req p))); simpl; [now apply IH | auto].
  Qed.

  Lemma run_variant_spec uc pats : forall s, cache_ok s ->
    fst (run_variant ecu matchf uc s pats) = variant_ok ecu matchf pats /\
    cache_ok (snd (run_variant ecu matchf uc s pats)).
  Proof.
    induction pats as [|ps pats IH]; intros s C; simpl; [auto|].
    destruct (run_pattern ecu matchf uc s ps) as [ok s1] eqn:R.
    destruct (run_pattern_spec uc ps s C) as [E C1]. rewrite R in E, C1. simpl in E, C1. rewrite <- E.
    destruct ok; simpl; [auto | now apply IH].
  Qed.

  Lemma run_variants_spec uc vs : forall s i, cache_ok s ->
    fst (run_variants ecu matchf uc s vs i) = first_ok ecu matchf vs i.
  Proof.
    induction vs as [|v vs IH]; intros s i C; simpl; [reflexivity|].
    destruct (run_variant ecu matchf uc s v) as [ok s1] eqn:R.
    destruct (run_variant_spec uc v s C) as [E C1]. rewrite R in E, C1. simpl in E, C1. rewrite <- E.
    destruct ok; simpl; [reflexivity | now apply IH].
  Qed.

  Lemma cache_ok_init : cache_ok (mkM [] []).
  Proof. intros k v. discriminate. Qed.

  (* the matcher reports the first candidate that has a pattern all of whose
     parameters match -- with and without caching *)
  Theorem first_match uc vs : fst (request_loop ecu matchf uc vs) = first_ok ecu matchf vs 0.
  Proof.
    unfold request_loop. pose proof (run_variants_spec uc vs (mkM [] []) 0 cache_ok_init) as H.
    destruct (run_variants ecu matchf uc (mkM [] []) vs 0). exact H.
  Qed.

  Theorem cache_independent vs :
    fst (request_loop ecu matchf true vs) = fst (request_loop ecu matchf false vs).
  Proof. now rewrite !first_match. Qed.

  (* ---------- which requests are issued ---------- *)
  Definition reqs_of (vs : list variant) : list Z := map mp_req (concat (concat vs)).

  Definition issued_inv (all : list Z) (s : mstate) : Prop :=
    incl (issued s) all.

  Lemma ask_issued uc s p :
    issued (snd (ask ecu uc s p)) = issued s \/ issued (snd (ask ecu uc s p)) = issued s ++ [mp_req p].
  Proof.
    unfold ask. destruct (if uc then clookup (mp_req p) (cache s) else None); simpl; auto.
  Qed.

  Lemma run_pattern_issued uc ps : forall s all,
    incl (map mp_req ps) all -> incl (issued s) all ->
    incl (issued (snd (run_pattern ecu matchf uc s ps))) all.
  Proof.
    induction ps as [|p ps IH]; intros s all Hp Hs; simpl; [exact Hs|].
    destruct (ask ecu uc s p) as [resp s1] eqn:A.
    assert (H1 : incl (issued s1) all).
    { pose proof (ask_issued uc s p) as Q. rewrite A in Q. simpl in Q. destruct Q as [-> | ->]; [exact Hs|].
      apply incl_app; [exact Hs|]. intros x [<-|[]]. apply Hp. now left. }
    destruct (matchf (mp_id p) resp); simpl; [|exact H1].
    apply IH; [|exact H1]. intros x Hx. apply Hp. now right.
  Qed.

  Lemma run_variant_issued uc pats : forall s all,
    incl (map mp_req (concat pats)) all -> incl (issued s) all ->
    incl (issued (snd (run_variant ecu matchf uc s pats))) all.
  Proof.
    induction pats as [|ps pats IH]; intros s all Hp Hs; simpl; [exact Hs|].
    destruct (run_pattern ecu matchf uc s ps) as [ok s1] eqn:R.
    assert (H1 : incl (issued s1) all).
    { pose proof (run_pattern_issued uc ps s all) as Q. rewrite R in Q. simpl in Q. apply Q; [|exact Hs].
      intros x Hx. apply Hp. simpl. rewrite map_app. apply in_app_iff. now left. }
    destruct ok; simpl; [exact H1|]. apply IH; [|exact H1].
    intros x Hx. apply Hp. simpl. rewrite map_app. apply in_app_iff. now right.
  Qed.

  Lemma run_variants_issued uc vs : forall s i all,
    incl (reqs_of vs) all -> incl (issued s) all ->
    incl (issued (snd (run_variants ecu matchf uc s vs i))) all.
  Proof.
    induction vs as [|v vs IH]; intros s i all Hp Hs; simpl; [exact Hs|].
    destruct (run_variant ecu matchf uc s v) as [ok s1] eqn:R.
    assert (H1 : incl (issued s1) all).
    { pose proof (run_variant_issued uc v s all) as Q. rewrite R in Q. simpl in Q. apply Q; [|exact Hs].
      intros x Hx. apply Hp. unfold reqs_of. simpl. rewrite concat_app, map_app. apply in_app_iff. now left. }
    destruct ok; simpl; [exact H1|]. apply IH; [|exact H1].
    intros x Hx. apply Hp. unfold reqs_of in *. simpl. rewrite concat_app, map_app. apply in_app_iff. now right.
  Qed.

  (* only identification requests of the candidates are issued *)
  Theorem only_ident_requests uc vs : incl (snd (request_loop ecu matchf uc vs)) (reqs_of vs).
  Proof.
    unfold request_loop.
    pose proof (run_variants_issued uc vs (mkM [] []) 0 (reqs_of vs) (incl_refl _)) as H.
    destruct (run_variants ecu matchf uc (mkM [] []) vs 0) as [m s]. simpl in *. apply H. intros x [].
  Qed.

  (* with caching no request is issued twice: everything issued is in the cache *)
  Definition nodup_inv (s : mstate) : Prop :=
    NoDup (issued s) /\ forall k, In k (issued s) -> clookup k (cache s) <> None.

  Lemma NoDup_snoc {A} (l : list A) (a : A) : NoDup l -> ~ In a l -> NoDup (l ++ [a]).
  Proof.
    induction l as [|b l IH]; simpl; intros N H.
    - repeat constructor. intros [].
    - inversion N as [|? ? Hb N']; subst. constructor.
      + rewrite in_app_iff. simpl. intros [Hi|[->|[]]]; tauto.
      + apply IH; tauto.
  Qed.

  Lemma ask_nodup s p : nodup_inv s -> nodup_inv (snd (ask ecu true s p)).
  Proof.
    intros [N C]. unfold ask. simpl. destruct (clookup (mp_req p) (cache s)) eqn:E; simpl; [split; assumption|].
    split.
    - apply NoDup_snoc; [exact N|]. intros Hin. apply (C _ Hin). exact E.
    - intros k Hk. simpl. destruct (mp_req p =? k) eqn:Ek; [discriminate|].
      apply in_app_iff in Hk as [Hk|[<-|[]]]; [now apply C | rewrite Z.eqb_refl in Ek; discriminate].
  Qed.

  Lemma run_pattern_nodup ps : forall s, nodup_inv s -> nodup_inv (snd (run_pattern ecu matchf true s ps)).
  Proof.
    induction ps as [|p ps IH]; intros s I; simpl; [exact I|].
    pose proof (ask_nodup s p I) as I1. destruct (ask ecu true s p) as [resp s1]. simpl in I1.
    destruct (matchf (mp_id p) resp); simpl; [now apply IH | exact I1].
  Qed.

  Lemma run_variant_nodup pats : forall s, nodup_inv s -> nodup_inv (snd (run_variant ecu matchf true s pats)).
  Proof.
    induction pats as [|ps pats IH]; intros s I; simpl; [exact I|].
    pose proof (run_pattern_nodup ps s I) as I1. destruct (run_pattern ecu matchf true s ps) as [ok s1]. simpl in I1.
    destruct ok; simpl; [exact I1 | now apply IH].
  Qed.

  Lemma run_variants_nodup vs : forall s i, nodup_inv s -> nodup_inv (snd (run_variants ecu matchf true s vs i)).
  Proof.
    induction vs as [|v vs IH]; intros s i I; simpl; [exact I|].
    pose proof (run_variant_nodup v s I) as I1. destruct (run_variant ecu matchf true s v) as [ok s1]. simpl in I1.
    destruct ok; simpl; [exact I1 | now apply IH].
  Qed.

  Theorem cache_no_repeat vs : NoDup (snd (request_loop ecu matchf true vs)).
  Proof.
    unfold request_loop.
    assert (I0 : nodup_inv (mkM [] [])) by (split; [constructor | intros k []]).
    pose proof (run_variants_nodup vs (mkM [] []) 0 I0) as [N _].
    destruct (run_variants ecu matchf true (mkM [] []) vs 0). exact N.
  Qed.
End P.

Example variant_example :
  let ecu := fun k => if k =? 1 then 10 else 20 in
  let matchf := fun p r => (p =? r) in
  request_loop ecu matchf true [[[mkMP 1 11]]; [[mkMP 1 10; mkMP 2 20]]] = (Some 1%nat, [1; 2]).
Proof. vm_compute. reflexivity. Qed.
