(* C08 for messages of good members: where every member reports a static bit length which matches its bytes
   (leaves, LINEAR leaves, structures of such members, structures with BYTE-SIZE -- whatever they contain), the
   message reports 8 x the number of bytes of every encoding. *)
From Coq Require Import ZArith List Bool Lia.
From OV Require Import Base.Bytes Base.Wire Generated Model.Str Model.Codec
     Proofs.BytesProofs Proofs.AtomicProofs Proofs.CodecProps Proofs.FlatProofs Proofs.TreeProofs Proofs.TreeWireProofs
     Proofs.FieldProofs Proofs.CompareProofs Proofs.PadProofs Proofs.BStructProofs Proofs.LinearLeafProofs Proofs.ReservedProofs.
Import ListNotations.
Open Scope Z_scope.

(* the member has implicit positions and reports pbl bits, which round up to the number of its bytes *)
Definition sgood (f : nat) (x : rmem) : Prop :=
  exists nm kd pbl, m_p (r_m x) = P nm None None kd /\ kind_bits f (m_p (r_m x)) = Some pbl /\
                    (0 + pbl + 7) / 8 = blen (r_w x).

Lemma members_sb f : forall rs,
  (forall x, In x rs -> sgood f x) ->
  sb_go f (map m_p (rms rs)) 0 0 = Some (8 * blen (rbytes rs)).
Proof.
  intros rs Hs.
  destruct (sb_go_members f (map m_p (rms rs)) 0 ltac:(lia)) as (total & E & Ht & Et).
  { intros p Hp. unfold rms in Hp. rewrite map_map in Hp. apply in_map_iff in Hp as (x & <- & Hx).
    destruct (Hs x Hx) as (nm & kd & pbl & Ep & Ek & Eb). exists nm, kd, pbl.
    split; [exact Ep|]. split; [exact Ek|]. rewrite Eb. apply blen_nonneg. }
  rewrite E. f_equal. f_equal. cbn [Z.add]. rewrite Et. clear E Et Ht.
  induction rs as [|x rs IH]; cbn [rms map fold_right rbytes concat]; [reflexivity|].
  destruct (Hs x (or_introl eq_refl)) as (nm & kd & pbl & Ep & Ek & Eb).
  rewrite Ek, Eb, blen_app. f_equal. apply IH. intros y Hy. apply Hs. now right.
Qed.

(* ---------- which members are such ---------- *)
Lemma leaf_sgood f x vv w : canon vv x w -> 0 < f_bl x -> sgood (S f) (leaf_rm x vv w).
Proof.
  intros (_ & Hlen & _) Hbl. unfold sgood, leaf_rm. cbn [r_m r_w m_p].
  destruct (mkp_shape x) as (k & Ek). exists (f_name x), k, (f_bl x). split; [exact Ek|]. split.
  - unfold kind_bits, mkp. destruct (f_const x); reflexivity.
  - rewrite Hlen. unfold fbytes, nbytes_of. f_equal. lia.
Qed.

Lemma blen_to_be n x : blen (to_be n x) = Z.of_nat n.
Proof. unfold blen. now rewrite to_be_length. Qed.

Lemma wire_bytes_len nm bl hl x : 0 < bl -> blen (wire_bytes (raw_fd nm bl hl) x) = nbytes_of bl 0.
Proof.
  intros Hbl. unfold wire_bytes, raw_fd, fbytes. cbn [f_bl f_hl f_bt is_numeric].
  assert (0 <= nbytes_of bl 0) by (unfold nbytes_of; apply Z.div_pos; lia).
  destruct (negb hl && true); rewrite ?blen_rev, blen_to_be; lia.
Qed.

Lemma lin_sgood f nm bl hl off num lo hi x : 0 < bl -> sgood (S f) (lin_rm nm bl hl off num lo hi x).
Proof.
  intros Hbl. unfold sgood, lin_rm. cbn [r_m r_w m_p]. unfold lin_param.
  eexists _, _, bl. split; [reflexivity|]. split; [reflexivity|].
  rewrite wire_bytes_len by exact Hbl. unfold nbytes_of. f_equal. lia.
Qed.

Lemma reserved_sgood f nm bl : 0 < bl -> sgood f (reserved_rm nm bl).
Proof.
  intros Hbl. unfold sgood, reserved_rm. cbn [r_m r_w m_p]. unfold reserved_param.
  eexists _, _, bl. split; [reflexivity|]. split; [reflexivity|].
  assert (0 <= nbytes_of bl 0) by (unfold nbytes_of; apply Z.div_pos; lia).
  rewrite zeros_blen by assumption. unfold nbytes_of. f_equal. lia.
Qed.

(* a structure with BYTE-SIZE: static whatever it contains *)
Lemma bstruct_sgood f nm rs b : blen (rbytes rs) <= b -> sgood (S f) (bstruct_rm nm rs b).
Proof.
  intros Hsz. unfold sgood, bstruct_rm. cbn [r_m r_w m_p]. unfold bstruct_param.
  eexists _, _, (8 * b). split; [reflexivity|]. split; [reflexivity|].
  rewrite padded_length by exact Hsz.
  replace (0 + 8 * b + 7) with (7 + b * 8) by lia. rewrite Z.div_add by lia. reflexivity.
Qed.

(* a structure without BYTE-SIZE: static if its members are *)
Lemma struct_sgood f nm rs : (forall x, In x rs -> sgood f x) -> sgood (S f) (struct_rm nm rs).
Proof.
  intros Hs. unfold sgood, struct_rm. cbn [r_m r_w m_p]. unfold struct_param.
  eexists _, _, (8 * blen (rbytes rs)). split; [reflexivity|]. split.
  - unfold kind_bits. cbn [pkind_of].
    change (static_bits (S f) (DStruct (map m_p (rms rs)) None)) with (sb_go f (map m_p (rms rs)) 0 0).
    now apply members_sb.
  - replace (0 + 8 * blen (rbytes rs) + 7) with (7 + blen (rbytes rs) * 8) by lia. rewrite Z.div_add by lia. reflexivity.
Qed.

(* ---------- messages ---------- *)
Theorem members_static_length rs F :
  fuel_of (map m_p (rms rs)) = S F -> (forall x, In x rs -> sgood F x) ->
  static_bits_msg (map m_p (rms rs)) = Some (8 * blen (rbytes rs)).
Proof.
  intros EF Hs. unfold static_bits_msg. rewrite EF.
  change (static_bits (S F) (DStruct (map m_p (rms rs)) None)) with (sb_go F (map m_p (rms rs)) 0 0).
  now apply members_sb.
Qed.

(* the static length is the length of the encoding *)
Theorem members_length_is_static k rs F :
  (forall x, In x rs -> rgood k x) -> NoDup (map m_name (rms rs)) ->
  fuel_of (map m_p (rms rs)) = S F -> (k <= F)%nat -> (forall x, In x rs -> sgood F x) ->
  exists pdu, encode_msg (map m_p (rms rs)) None (VDict (in_dict (rms rs))) = Ok (pdu, false) /\
              static_bits_msg (map m_p (rms rs)) = Some (8 * blen pdu).
Proof.
  intros Hg ND EF Hk Hs. exists (rbytes rs). split.
  - apply (rmessage_roundtrip k rs Hg ND). rewrite EF. lia.
  - now apply (members_static_length rs F).
Qed.

(* a request: service id, a structure declared as 5 bytes holding 3, a structure of a LINEAR byte and a word *)
Example static_len_example :
  let u8 nm := mkF nm 8 BUint None true BUint None in
  let u16 nm := mkF nm 16 BUint None true BUint None in
  let vv (z : Z) := fun _ : name => VInt z in
  let inner := [leaf_rm (u8 [97]) (vv 7) (wire_bytes (u8 [97]) 7); leaf_rm (u16 [98]) (vv 258) (wire_bytes (u16 [98]) 258)] in
  let rs := [leaf_rm (mkF [115] 8 BUint None true BUint (Some (VInt 34))) (vv 34) [34];
             bstruct_rm [116] inner 5;
             struct_rm [117] [lin_rm [99] 8 true (-40) 2 None None 100; leaf_rm (u16 [100]) (vv 3) (wire_bytes (u16 [100]) 3)]] in
  static_bits_msg (map m_p (rms rs)) = Some 72 /\
  encode_msg (map m_p (rms rs)) None (VDict (in_dict (rms rs))) = Ok ([34; 7; 1; 2; 0; 0; 100; 0; 3], false).
Proof. cbv zeta. split; vm_compute; reflexivity. Qed.

Example static_len_premises :
  let u8 nm := mkF nm 8 BUint None true BUint None in
  let u16 nm := mkF nm 16 BUint None true BUint None in
  let vv (z : Z) := fun _ : name => VInt z in
  let inner := [leaf_rm (u8 [97]) (vv 7) (wire_bytes (u8 [97]) 7); leaf_rm (u16 [98]) (vv 258) (wire_bytes (u16 [98]) 258)] in
  let rs := [leaf_rm (mkF [115] 8 BUint None true BUint (Some (VInt 34))) (vv 34) (wire_bytes (mkF [115] 8 BUint None true BUint (Some (VInt 34))) 34);
             bstruct_rm [116] inner 5;
             struct_rm [117] [lin_rm [99] 8 true (-40) 2 None None 100; leaf_rm (u16 [100]) (vv 3) (wire_bytes (u16 [100]) 3)]] in
  forall F, fuel_of (map m_p (rms rs)) = S F -> forall x, In x rs -> sgood F x.
Proof.
  intros u8 u16 vv inner rs F EF. vm_compute in EF. injection EF as <-.
  assert (C : forall nm bl hl c z, 0 < bl <= 64 -> 0 <= z < 2 ^ bl -> (match c with Some c => c = VInt z | None => True end) ->
              canon (fun _ => VInt z) (mkF nm bl BUint None hl BUint c) (wire_bytes (mkF nm bl BUint None hl BUint c) z)).
  { intros nm bl hl c z Hbl Hz Hc. apply wire_bytes_canon; cbn [f_bl f_bt f_en f_hl fname f_name]; try lia.
    - apply raw_of_uint; lia.
    - destruct (uint_raw_roundtrip z bl None hl z ltac:(lia) (or_introl eq_refl) (raw_of_uint z bl hl ltac:(lia) Hz)) as [_ Hv]. exact Hv. }
  intros x [<-|[<-|[<-|[]]]].
  - apply leaf_sgood; [apply C; cbn; try lia; reflexivity | cbn; lia].
  - apply bstruct_sgood. vm_compute. discriminate.
  - apply struct_sgood. intros y [<-|[<-|[]]].
    + apply lin_sgood. lia.
    + apply leaf_sgood; [apply C; cbn; try lia; exact I | cbn; lia].
Qed.
