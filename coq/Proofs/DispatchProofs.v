(* Proofs about Model/Dispatch.v: the prefix tree finds exactly the services filed
   under a non-empty prefix of the message; the layer reports exactly the
   candidates that match. *)
From Coq Require Import ZArith List Bool Lia.
From OV Require Import Base.Bytes Base.Wire Model.Str Model.Codec Model.CodecWire Model.Dispatch.
Import ListNotations.
Open Scope Z_scope.

(* ---------- association list of children ---------- *)
Lemma kid_find_set_same b t ks : kid_find b (kid_set b t ks) = Some t.
Proof.
  induction ks as [|[k t'] ks IH]; simpl.
  - now rewrite Z.eqb_refl.
  - destruct (k =? b) eqn:E; simpl; rewrite E; [reflexivity | exact IH].
Qed.

Lemma kid_find_set_other b b' t ks : b' <> b -> kid_find b' (kid_set b t ks) = kid_find b' ks.
Proof.
  intros H. induction ks as [|[k t'] ks IH]; simpl.
  - replace (b =? b') with false by lia. reflexivity.
  - destruct (k =? b) eqn:E; simpl.
    + apply Z.eqb_eq in E. subst k. replace (b =? b') with false by lia. reflexivity.
    + destruct (k =? b'); [reflexivity | exact IH].
Qed.

(* ---------- the services filed at an exact path ---------- *)
Fixpoint leaves_at (t : trie) (p : list Z) : list Z :=
  match p with
  | [] => match t with Node leaf _ => leaf end
  | b :: r => match t with Node _ kids =>
                match kid_find b kids with Some sub => leaves_at sub r | None => [] end
              end
  end.

Lemma leaves_at_empty p : leaves_at empty_trie p = [].
Proof. destruct p; reflexivity. Qed.

Lemma list_eq_dec_Z (a b : list Z) : {a = b} + {a <> b}.
Proof. apply list_eq_dec, Z.eq_dec. Qed.

Lemma insert_leaves : forall q s t p,
  leaves_at (insert q s t) p = leaves_at t p ++ (if list_eq_dec_Z p q then [s] else []).
Proof.
  induction q as [|b q IH]; intros s [leaf kids] p.
  - cbn [insert]. destruct p as [|c p]; simpl.
    + destruct (list_eq_dec_Z [] []); [reflexivity | congruence].
    + destruct (list_eq_dec_Z (c :: p) []); [discriminate|]. now rewrite app_nil_r.
  - cbn [insert]. destruct p as [|c p].
    + simpl. destruct (list_eq_dec_Z [] (b :: q)); [discriminate|]. now rewrite app_nil_r.
    + cbn [leaves_at]. destruct (Z.eq_dec c b) as [->|N].
      * rewrite kid_find_set_same, IH.
        destruct (kid_find b kids) as [sub|]; [|rewrite leaves_at_empty].
        -- destruct (list_eq_dec_Z p q), (list_eq_dec_Z (b :: p) (b :: q)); try congruence; reflexivity.
        -- destruct (list_eq_dec_Z p q), (list_eq_dec_Z (b :: p) (b :: q)); try congruence; reflexivity.
      * rewrite kid_find_set_other by assumption.
        destruct (list_eq_dec_Z (c :: p) (b :: q)); [congruence|]. now rewrite app_nil_r.
Qed.

Definition build (es : list (list Z * Z)) : trie :=
  fold_left (fun t e => insert (fst e) (snd e) t) es empty_trie.

Lemma fold_insert_leaves es : forall t p,
  leaves_at (fold_left (fun t e => insert (fst e) (snd e) t) es t) p =
  leaves_at t p ++ map snd (filter (fun e => if list_eq_dec_Z p (fst e) then true else false) es).
Proof.
  induction es as [|[q s] es IH]; intros t p; simpl.
  - now rewrite app_nil_r.
  - rewrite IH, insert_leaves. rewrite <- app_assoc. f_equal.
    destruct (list_eq_dec_Z p q); reflexivity.
Qed.

Lemma build_leaves es p :
  leaves_at (build es) p = map snd (filter (fun e => if list_eq_dec_Z p (fst e) then true else false) es).
Proof. unfold build. now rewrite fold_insert_leaves, leaves_at_empty. Qed.

(* ---------- the walk collects the leaves of every non-empty prefix ---------- *)
Lemma walk_spec : forall msg t s,
  In s (walk t msg) <->
  exists k, (1 <= k <= List.length msg)%nat /\ In s (leaves_at t (firstn k msg)).
Proof.
  induction msg as [|b r IH]; intros [leaf kids] s.
  - simpl. split; [intros [] | intros (k & Hk & _); lia].
  - cbn [walk]. destruct (kid_find b kids) as [[leaf' kids']|] eqn:F.
    + rewrite in_app_iff, IH. split.
      * intros [H|(k & Hk & H)].
        -- exists 1%nat. split; [simpl; lia|]. simpl. now rewrite F.
        -- exists (S k). split; [simpl; lia|]. cbn [firstn leaves_at]. now rewrite F.
      * intros (k & Hk & H). destruct k as [|k]; [lia|]. cbn [firstn leaves_at] in H. rewrite F in H.
        destruct k as [|k].
        -- left. exact H.
        -- right. exists (S k). split; [simpl in Hk; lia | exact H].
    + split; [intros [] | intros (k & Hk & H)].
      destruct k as [|k]; [lia|]. cbn [firstn leaves_at] in H. now rewrite F in H.
Qed.

Lemma is_prefix_firstn p m :
  is_prefix p m = true <-> firstn (List.length p) m = p /\ (List.length p <= List.length m)%nat.
Proof.
  revert m; induction p as [|x p IH]; intros m; simpl.
  - split; [intros _; split; [reflexivity | lia] | reflexivity].
  - destruct m as [|y m]; simpl.
    + split; [discriminate | intros [_ H]; lia].
    + rewrite andb_true_iff, IH, Z.eqb_eq. split.
      * intros (-> & E & L). split; [now rewrite E | lia].
      * intros (E & L). injection E as -> E. repeat split; auto; lia.
Qed.

(* the prefix tree is sound and complete: a service is found for a message iff it
   was filed under a NON-EMPTY prefix of the message (the root is never inspected) *)
Theorem trie_sound_complete es msg s :
  In s (walk (build es) msg) <->
  exists p, In (p, s) es /\ p <> [] /\ is_prefix p msg = true.
Proof.
  rewrite walk_spec. split.
  - intros (k & Hk & H). rewrite build_leaves in H. apply in_map_iff in H as ([q s'] & E & H).
    simpl in E. subst s'. apply filter_In in H as [Hin Hq]. simpl in Hq.
    destruct (list_eq_dec_Z (firstn k msg) q) as [<-|]; [|discriminate].
    exists (firstn k msg). split; [exact Hin|]. split.
    + destruct msg; simpl in *; [lia|]. destruct k; [lia | discriminate].
    + apply is_prefix_firstn. rewrite firstn_length, Nat.min_l by lia.
      split; [reflexivity | lia].
  - intros (p & Hin & Hne & Hp). apply is_prefix_firstn in Hp as [E L].
    exists (List.length p). split.
    + destruct p; [congruence | simpl in *; lia].
    + rewrite build_leaves, E. apply in_map_iff. exists (p, s). split; [reflexivity|].
      apply filter_In. split; [exact Hin|]. simpl. destruct (list_eq_dec_Z p p); congruence.
Qed.

(* ---------- the layer reports exactly the matching candidates ---------- *)
Definition contributes (L : layer) (msg : list Z) (id : Z) : Prop :=
  exists m, cand_messages L id msg = Ok m /\ m <> [].

Lemma cand_messages_ids L id msg m :
  cand_messages L id msg = Ok m -> forall x, In x m -> fst (fst x) = id.
Proof.
  unfold cand_messages. destruct (find_service id (l_services L)) as [s|]; [|intros [= <-] x []].
  destruct (service_decode s msg) as [[c v]|e].
  - intros [= <-] x [<-|[]]. reflexivity.
  - destruct (is_decode_err e); [|discriminate].
    generalize (l_gnrs L). intros gs. revert m. induction gs as [|g gs IH]; simpl; intros m H.
    + injection H as <-. intros x [].
    + destruct (decode_msg (c_params g) msg) as [v|e'].
      * destruct (gnr_fallback id gs msg) as [rest|] eqn:R; [|discriminate]. injection H as <-.
        intros x [<-|Hx]; [reflexivity | now apply (IH rest)].
      * destruct (is_decode_err e'); [now apply IH | discriminate].
Qed.

(* if no candidate runs into a hard (non-decode) error, the services reported are
   exactly the candidates that contribute a message, and a DecodeError is raised
   exactly when there is none *)
Theorem decode_exact L msg : forall cands out,
  all_messages L cands msg = Ok out ->
  forall id, In id (map (fun x => fst (fst x)) out) <-> In id cands /\ contributes L msg id.
Proof.
  induction cands as [|c cands IH]; intros out H id; simpl in H.
  - injection H as <-. simpl. split; [intros [] | intros [[] _]].
  - destruct (cand_messages L c msg) as [m|] eqn:C; [|discriminate].
    destruct (all_messages L cands msg) as [rest|] eqn:R; [|discriminate].
    injection H as <-. rewrite map_app, in_app_iff, (IH rest eq_refl). split.
    + intros [Hm | [Hin Hc]].
      * apply in_map_iff in Hm as (x & Ex & Hx). pose proof (cand_messages_ids L c msg m C x Hx) as E.
        assert (Hid : id = c) by congruence. rewrite Hid. split; [now left|].
        exists m. split; [exact C|]. intros ->. contradiction.
      * split; [now right | exact Hc].
    + intros [[<-|Hin] Hc].
      * left. destruct Hc as (m' & C' & Hne). rewrite C in C'. injection C' as <-.
        destruct m as [|x m]; [congruence|]. apply in_map_iff. exists x. split; [|now left].
        apply (cand_messages_ids L c msg (x :: m) C). now left.
      * right. split; assumption.
Qed.

Theorem decode_error_iff_none L cands msg out :
  all_messages L cands msg = Ok out ->
  (layer_decode_cands L cands msg = Err EDecode <-> forall id, In id cands -> ~ contributes L msg id).
Proof.
  intros H. unfold layer_decode_cands. rewrite H. cbn [bind]. split.
  - destruct out as [|x out]; [|discriminate]. intros _ id Hin Hc.
    pose proof (proj2 (decode_exact L msg cands [] H id) (conj Hin Hc)) as F. exact F.
  - intros Hn. destruct out as [|x out]; [reflexivity|]. exfalso.
    pose proof (proj1 (decode_exact L msg cands (x :: out) H (fst (fst x))) (or_introl eq_refl)) as [Hin Hc].
    exact (Hn _ Hin Hc).
Qed.

(* non-vacuity *)
Example trie_example :
  walk (build [([34], 1); ([34; 1], 2); ([], 3); ([98], 1)]) [34; 1; 7] = [1; 2].
Proof. vm_compute. reflexivity. Qed.
