(* C04 at message level: encoding ANY value (a dictionary with missing, superfluous, ill-typed or
   out-of-range entries, or no dictionary at all) with a message which is a sequence of CODED-CONST /
   VALUE parameters over STANDARD-LENGTH types either yields a PDU or is rejected with the library's own
   error class -- never a foreign exception, never fuel exhaustion; and what is accepted decodes to the
   values given. *)
From Coq Require Import ZArith List Bool Lia ZifyBool.
From OV Require Import Base.Bytes Base.Wire Generated Model.Str Model.Codec
     Proofs.BytesProofs Proofs.AtomicProofs Proofs.CodecProps Proofs.FlatProofs.
Import ListNotations.
Open Scope Z_scope.

Definition enc_outcome_ok {A} (r : res A) : Prop :=
  match r with Ok _ => True | Err ERej => True | _ => False end.

(* a description without float objects (the model has none) *)
Definition fnf (x : fdesc) : Prop := f_bt x <> BF32 /\ f_bt x <> BF64.

Lemma nbytes_nonneg bl bp : 0 <= bl -> 0 <= bp -> 0 <= nbytes_of bl bp.
Proof. intros. unfold nbytes_of. apply Z.div_pos; lia. Qed.

(* one atomic value without bit mask at bit position 0 *)
Lemma emplace_atomic_outcome s v bl bt en hl :
  e_bit s = 0 -> bt <> BF32 -> bt <> BF64 ->
  (exists s', emplace_atomic s v bl bt en hl None = Ok s' /\ e_bit s' = 0) \/
  emplace_atomic s v bl bt en hl None = Err ERej.
Proof.
  intros Hb F1 F2. unfold emplace_atomic.
  destruct (raw_of v bl bt en hl) as [raw|e] eqn:R.
  2:{ right. cbn [bind]. now rewrite (raw_of_rejects_properly _ _ _ _ _ _ F1 F2 R). }
  cbn [bind].
  destruct (bl =? 0) eqn:Z0.
  { left. unfold emplace_bytes. cbn [set_bit e_bit Z.eqb negb]. eexists. split; reflexivity. }
  destruct (is_numeric bt && (64 <? bl)); [right; reflexivity|].
  rewrite Hb. cbn [Z.eqb negb andb].
  left. unfold emplace_bytes. cbn [set_bit e_bit Z.eqb negb].
  set (n := nbytes_of bl 0).
  set (coded := if negb hl && is_numeric bt then rev (to_be (Z.to_nat n) (raw * 2 ^ 0)) else to_be (Z.to_nat n) (raw * 2 ^ 0)).
  set (mraw := if negb hl && is_numeric bt then rev (to_be (Z.to_nat n) ((2 ^ bl - 1) * 2 ^ 0)) else to_be (Z.to_nat n) ((2 ^ bl - 1) * 2 ^ 0)).
  assert (L : blen mraw = blen coded).
  { unfold mraw, coded. destruct (negb hl && is_numeric bt); rewrite ?blen_rev; unfold blen; now rewrite !to_be_length. }
  replace (blen mraw <? blen coded) with false by lia.
  eexists. split; reflexivity.
Qed.

(* one parameter: any dictionary, any state at bit position 0 *)
Lemma enc_flat_param_outcome f x kv s :
  fnf x ->
  (exists s', enc_param (S (S f)) (mkp x) kv s = Ok s' /\ e_bit s' = 0) \/
  enc_param (S (S f)) (mkp x) kv s = Err ERej.
Proof.
  intros [F1 F2]. unfold mkp. destruct (f_const x) as [cv|].
  - cbn [enc_param].
    destruct (negb (is_required (P (f_name x) None None (KCoded (Std (f_bt x) (f_en x) (f_hl x) (f_bl x) None) cv))) ||
              match lookup (f_name x) kv with Some _ => true | None => false end); [|right; reflexivity].
    cbn [guard bind opt_or0].
    destruct (is_none (vget (f_name x) kv) || atom_eqb (vget (f_name x) kv) cv); [|right; reflexivity].
    cbn [guard bind enc_dct std_apply_mask std_used_mask].
    destruct (emplace_atomic_outcome (set_bit s 0) cv (f_bl x) (f_bt x) (f_en x) (f_hl x) eq_refl F1 F2) as [(s' & E & Hb)|E];
      rewrite E; [left; eexists; split; reflexivity | right; reflexivity].
  - cbn [enc_param].
    destruct (negb (is_required (P (f_name x) None None (KValue (DSimple (Std (f_bt x) (f_en x) (f_hl x) (f_bl x) None) CIdent (f_pt x)) None))) ||
              match lookup (f_name x) kv with Some _ => true | None => false end); [|right; reflexivity].
    cbn [guard bind opt_or0].
    set (pv := if is_none (vget (f_name x) kv) then VNone else vget (f_name x) kv).
    destruct (negb (is_none pv)); [|right; reflexivity].
    cbn [guard bind enc_dop].
    destruct (valid_phys CIdent (f_pt x) pv); [|right; reflexivity].
    cbn [guard bind p2i].
    destruct (valid_int CIdent (dct_bt (Std (f_bt x) (f_en x) (f_hl x) (f_bl x) None)) pv); [|right; reflexivity].
    cbn [guard bind enc_dct std_apply_mask std_used_mask].
    destruct (emplace_atomic_outcome (set_bit s 0) pv (f_bl x) (f_bt x) (f_en x) (f_hl x) eq_refl F1 F2) as [(s' & E & Hb)|E];
      rewrite E; [left; eexists; split; reflexivity | right; reflexivity].
Qed.

Lemma enc_go_outcome f kv n eop : forall fl i s,
  (forall x, In x fl -> fnf x) ->
  (exists s', enc_go (S (S f)) kv n eop (map mkp fl) i s = Ok s') \/
  enc_go (S (S f)) kv n eop (map mkp fl) i s = Err ERej.
Proof.
  induction fl as [|x fl IH]; intros i s Hw; cbn [map enc_go].
  - left. eexists. reflexivity.
  - destruct (enc_flat_param_outcome f x kv (if i =? n - 1 then set_eop s eop else s) (Hw x (or_introl eq_refl)))
      as [(s' & E & _)|E]; rewrite E; cbn [bind].
    + apply IH. intros y Hy. apply Hw. now right.
    + right. reflexivity.
Qed.

(* ---------- encode_msg of a flat message, unfolded once and for all ---------- *)
Definition s_init : estate := set_eop (set_origin (estate0 None) (e_cur (estate0 None))) false.

Lemma flat_fuel fl : exists k, fuel_of (map mkp fl) = S (S (S k)).
Proof. unfold fuel_of. exists (4 * dop_size 64 (DStruct (map mkp fl) None) + 5)%nat. lia. Qed.

Lemma enc_bind_shape (X : res estate) (K : estate -> res estate) :
  (do s <- (do s1 <- X; K s1); Ok (e_msg s, e_warn s)) =
  match X with Ok s1 => (do s <- K s1; Ok (e_msg s, e_warn s)) | Err e => Err e end.
Proof. destruct X; reflexivity. Qed.

Lemma encode_msg_flat fl kv k :
  fuel_of (map mkp fl) = S (S (S k)) ->
  encode_msg (map mkp fl) None (VDict kv) =
  if forallb (fun k0 => existsb (fun p => bytes_eqb (fst k0) (pname p)) (map mkp fl)) kv then
    match enc_go (S (S k)) kv (zlen (map mkp fl)) (e_eop (estate0 None)) (map mkp fl) 0 s_init with
    | Ok s' => Ok (e_msg s', e_warn s')
    | Err e => Err e
    end
  else Err ERej.
Proof.
  intros Hk. unfold encode_msg. rewrite Hk. cbn [enc_composite]. rewrite own_keys_flat. cbn [drop_keys].
  cbn [estate0 e_bit Z.eqb guard bind].
  destruct (forallb (fun k0 => existsb (fun p => bytes_eqb (fst k0) (pname p)) (map mkp fl)) kv); cbn [guard bind]; [|reflexivity].
  unfold enc_go, s_init. rewrite enc_bind_shape.
  match goal with |- match ?X with _ => _ end = match ?Y with _ => _ end => change Y with X; destruct X as [s'|e] end; [|reflexivity].
  pose proof (keys_flat (S (S k)) fl (set_eop s' false)) as Hkeys. unfold keys_go in Hkeys.
  rewrite Hkeys. reflexivity.
Qed.

(* ---------- the theorem ---------- *)
Theorem flat_encode_outcome fl v :
  (forall x, In x fl -> fnf x) -> enc_outcome_ok (encode_msg (map mkp fl) None v).
Proof.
  intros Hw. destruct (flat_fuel fl) as (k & Hk).
  destruct v as [z|b|str| |kv|l];
    try (unfold encode_msg; rewrite Hk; exact I).
  rewrite (encode_msg_flat fl kv k Hk).
  destruct (forallb (fun k0 => existsb (fun p => bytes_eqb (fst k0) (pname p)) (map mkp fl)) kv); [|exact I].
  destruct (enc_go_outcome k kv (zlen (map mkp fl)) (e_eop (estate0 None)) fl 0 s_init Hw) as [(s' & ->) | ->]; exact I.
Qed.

(* ======================================================================================== *)
(* what is accepted decodes to what was given: messages of signed / unsigned integer parameters *)
Definition fnum (x : fdesc) : Prop :=
  0 < f_bl x /\
  ((f_bt x = BUint /\ f_pt x = BUint /\ (f_en x = None \/ f_en x = Some EncNONE)) \/
   (f_bt x = BInt /\ f_pt x = BInt /\
    (f_en x = None \/ f_en x = Some Enc2C \/ f_en x = Some Enc1C \/ f_en x = Some EncSM))).

(* the value of a parameter as the caller specified it: the constant, or the dictionary entry *)
Definition given (x : fdesc) (kv : list (name * value)) : value :=
  match f_const x with Some cv => cv | None => vget (f_name x) kv end.

Lemma raw_of_codable v bl bt en hl raw pt :
  0 < bl ->
  ((bt = BUint /\ pt = BUint /\ (en = None \/ en = Some EncNONE)) \/
   (bt = BInt /\ pt = BInt /\ (en = None \/ en = Some Enc2C \/ en = Some Enc1C \/ en = Some EncSM))) ->
  raw_of v bl bt en hl = Ok raw ->
  codable v bl bt en hl /\ isinstance_bt bt v = true /\ isinstance_bt pt v = true.
Proof.
  intros Hbl [(-> & -> & Hen)|(-> & -> & Hen)] R.
  - destruct v as [z|b|str| |kv|l]; try (cbn in R; discriminate).
    destruct (uint_raw_roundtrip z bl en hl raw ltac:(lia) Hen R) as [Hr Hv].
    split; [exists raw; auto | split; reflexivity].
  - destruct v as [z|b|str| |kv|l]; try (cbn in R; discriminate).
    destruct (int_raw_roundtrip z bl en hl raw Hbl Hen R) as [Hr Hv].
    split; [exists raw; auto | split; reflexivity].
Qed.

(* an accepted parameter: its given value fits *)
Lemma accepted_fits f x kv s s' :
  fnum x -> enc_param (S (S f)) (mkp x) kv s = Ok s' -> fits x (given x kv).
Proof.
  intros (Hbl & Hk) H. unfold mkp, given in *. unfold fits.
  destruct (f_const x) as [cv|] eqn:Ec.
  - cbn [enc_param] in H.
    destruct (negb (is_required (P (f_name x) None None (KCoded (Std (f_bt x) (f_en x) (f_hl x) (f_bl x) None) cv))) ||
              match lookup (f_name x) kv with Some _ => true | None => false end); [|discriminate].
    cbn [guard bind opt_or0] in H.
    destruct (is_none (vget (f_name x) kv) || atom_eqb (vget (f_name x) kv) cv); [|discriminate].
    cbn [guard bind enc_dct std_apply_mask std_used_mask] in H.
    destruct (emplace_atomic (set_bit s 0) cv (f_bl x) (f_bt x) (f_en x) (f_hl x) None) as [s1|e] eqn:E; [|discriminate].
    unfold emplace_atomic in E.
    destruct (raw_of cv (f_bl x) (f_bt x) (f_en x) (f_hl x)) as [raw|e] eqn:R; [|discriminate]. cbn [bind] in E.
    replace (f_bl x =? 0) with false in E by lia.
    destruct (is_numeric (f_bt x) && (64 <? f_bl x)) eqn:W; [discriminate|].
    destruct (raw_of_codable cv (f_bl x) (f_bt x) (f_en x) (f_hl x) raw (f_pt x) Hbl Hk R) as (C & I1 & I2).
    repeat split; auto.
  - cbn [enc_param] in H.
    destruct (negb (is_required (P (f_name x) None None (KValue (DSimple (Std (f_bt x) (f_en x) (f_hl x) (f_bl x) None) CIdent (f_pt x)) None))) ||
              match lookup (f_name x) kv with Some _ => true | None => false end); [|discriminate].
    cbn [guard bind opt_or0] in H.
    set (pv := if is_none (vget (f_name x) kv) then VNone else vget (f_name x) kv) in *.
    destruct (is_none pv) eqn:N; [discriminate|]. cbn [negb guard bind enc_dop] in H.
    assert (Epv : pv = vget (f_name x) kv).
    { unfold pv in *. destruct (is_none (vget (f_name x) kv)); [discriminate N | reflexivity]. }
    destruct (valid_phys CIdent (f_pt x) pv); [|discriminate].
    cbn [guard bind p2i] in H.
    destruct (valid_int CIdent (dct_bt (Std (f_bt x) (f_en x) (f_hl x) (f_bl x) None)) pv); [|discriminate].
    cbn [guard bind enc_dct std_apply_mask std_used_mask] in H.
    destruct (emplace_atomic (set_bit s 0) pv (f_bl x) (f_bt x) (f_en x) (f_hl x) None) as [s1|e] eqn:E; [|discriminate].
    unfold emplace_atomic in E.
    destruct (raw_of pv (f_bl x) (f_bt x) (f_en x) (f_hl x)) as [raw|e] eqn:R; [|discriminate]. cbn [bind] in E.
    replace (f_bl x =? 0) with false in E by lia.
    destruct (is_numeric (f_bt x) && (64 <? f_bl x)) eqn:W; [discriminate|].
    destruct (raw_of_codable pv (f_bl x) (f_bt x) (f_en x) (f_hl x) raw (f_pt x) Hbl Hk R) as (C & I1 & I2).
    rewrite <- Epv. repeat split; auto.
Qed.

(* the encoder looks at the dictionary only through the entry of the parameter: two dictionaries which give
   the parameter the same value -- or, for a constant, one of them nothing and the other the constant -- encode alike *)
Lemma enc_param_canon f x kv kv0 s s' :
  enc_param (S (S f)) (mkp x) kv s = Ok s' ->
  lookup (f_name x) kv0 = (if is_value x then Some (given x kv) else None) ->
  enc_param (S (S f)) (mkp x) kv0 s = Ok s'.
Proof.
  intros H L0. unfold mkp, given, is_value in *.
  destruct (f_const x) as [cv|] eqn:Ec.
  - cbn [enc_param] in *. unfold is_required in *. cbn [pkind_of negb orb guard bind opt_or0] in *.
    unfold vget at 1 2. rewrite L0. cbn [is_none orb guard bind].
    destruct (is_none (vget (f_name x) kv) || atom_eqb (vget (f_name x) kv) cv); [|discriminate].
    exact H.
  - cbn [enc_param] in *. unfold is_required in *. cbn [pkind_of negb orb] in *. unfold vget in *.
    destruct (lookup (f_name x) kv) as [v|] eqn:L; [|discriminate].
    rewrite L0. cbn [guard bind opt_or0] in *. exact H.
Qed.

Lemma enc_go_accepted f kv kv0 n eop : forall fl i s s',
  enc_go (S (S f)) kv n eop (map mkp fl) i s = Ok s' ->
  (forall x, In x fl -> fnum x) ->
  (forall x, In x fl -> lookup (f_name x) kv0 = (if is_value x then Some (given x kv) else None)) ->
  enc_go (S (S f)) kv0 n eop (map mkp fl) i s = Ok s' /\ forall x, In x fl -> fits x (given x kv).
Proof.
  induction fl as [|x fl IH]; intros i s s' H Hn L0; cbn [map enc_go] in *.
  - split; [exact H | intros x []].
  - set (sa := if i =? n - 1 then set_eop s eop else s) in *.
    destruct (enc_param (S (S f)) (mkp x) kv sa) as [s1|e] eqn:E; [|discriminate]. cbn [bind] in H.
    rewrite (enc_param_canon f x kv kv0 sa s1 E (L0 x (or_introl eq_refl))). cbn [bind].
    destruct (IH (i + 1) s1 s' H (fun y Hy => Hn y (or_intror Hy)) (fun y Hy => L0 y (or_intror Hy))) as [G F].
    split; [exact G|].
    intros y [<-|Hy]; [|now apply F].
    eapply accepted_fits; [apply Hn; now left | exact E].
Qed.

(* the values function read off the description and the caller's dictionary *)
Definition vv_of (fl : list fdesc) (kv : list (name * value)) (nm : name) : value :=
  match find (fun x => bytes_eqb (fname x) nm) fl with Some x => given x kv | None => VNone end.

Lemma vv_of_given fl kv : NoDup (map fname fl) -> forall x, In x fl -> vv_of fl kv (fname x) = given x kv.
Proof.
  intros ND x Hx. unfold vv_of.
  induction fl as [|y fl IH]; [contradiction|]. cbn [find].
  inversion ND as [|? ? Hy ND']. subst.
  destruct (bytes_eqb (fname y) (fname x)) eqn:E.
  - apply bytes_eqb_eq in E. destruct Hx as [->|Hx]; [reflexivity|].
    exfalso. apply Hy. rewrite E. now apply in_map.
  - destruct Hx as [->|Hx]; [|now apply IH].
    assert (bytes_eqb (fname x) (fname x) = true) by now apply bytes_eqb_eq. congruence.
Qed.

(* ---------- the theorem ---------- *)
(* for every message of integer parameters and EVERY value handed to the encoder: it is rejected with the
   library's error, or the PDU decodes to exactly the constants and the values the caller gave *)
Theorem flat_accept_or_reject fl v :
  (forall x, In x fl -> fnum x) -> NoDup (map fname fl) ->
  encode_msg (map mkp fl) None v = Err ERej \/
  exists msg kv, v = VDict kv /\ encode_msg (map mkp fl) None v = Ok (msg, false) /\
                 decode_msg (map mkp fl) msg = Ok (VDict (map (fun x => (fname x, given x kv)) fl)) /\
                 blen msg = fold_right (fun x a => fbytes x + a) 0 fl.
Proof.
  intros Hn ND.
  assert (Hnf : forall x, In x fl -> fnf x).
  { intros x Hx. destruct (Hn x Hx) as (_ & [(E & _)|(E & _)]); unfold fnf; rewrite E; split; discriminate. }
  pose proof (flat_encode_outcome fl v Hnf) as O.
  destruct (flat_fuel fl) as (k & Hk).
  destruct v as [z|b|str| |kv|l];
    try (left; unfold encode_msg; rewrite Hk; reflexivity).
  rewrite (encode_msg_flat fl kv k Hk) in *.
  destruct (forallb (fun k0 => existsb (fun p => bytes_eqb (fst k0) (pname p)) (map mkp fl)) kv); [|now left].
  destruct (enc_go (S (S k)) kv (zlen (map mkp fl)) (e_eop (estate0 None)) (map mkp fl) 0 s_init) as [s'|e] eqn:G;
    [|destruct e; try contradiction; now left].
  right.
  set (vv := vv_of fl kv).
  set (kv0 := fvals vv (filter is_value fl)).
  assert (L0 : forall x, In x fl -> lookup (f_name x) kv0 = (if is_value x then Some (given x kv) else None)).
  { intros x Hx. unfold kv0. change (f_name x) with (fname x). rewrite (lookup_filtered vv fl x ND Hx).
    unfold vv. now rewrite (vv_of_given fl kv ND x Hx). }
  destruct (enc_go_accepted k kv kv0 _ _ fl 0 s_init s' G Hn L0) as [G0 F].
  assert (Hfit : forall x, In x fl -> fits x (vv (fname x))).
  { intros x Hx. unfold vv. rewrite (vv_of_given fl kv ND x Hx). now apply F. }
  destruct (flat_roundtrip fl vv Hfit ND) as (m0 & E0 & D0 & Len0).
  fold kv0 in E0.
  (* the canonical dictionary runs through the very same states, so it yields the very same PDU *)
  rewrite (encode_msg_flat fl kv0 k Hk) in E0.
  assert (Hi : incl (filter is_value fl) fl) by (intros y Hy; apply filter_In in Hy; tauto).
  pose proof (known_params vv (filter is_value fl) fl Hi) as Hkp. fold kv0 in Hkp. rewrite Hkp in E0.
  rewrite G0 in E0. injection E0 as Em Ew.
  exists (e_msg s'), kv. split; [reflexivity|]. split; [now rewrite Ew|].
  rewrite Em. split; [|exact Len0].
  rewrite D0. f_equal. f_equal. unfold fvals. apply map_ext_in. intros x Hx.
  f_equal. unfold vv. now apply vv_of_given.
Qed.

Example accept_or_reject_example :
  let fl := [mkF [115] 8 BUint None true BUint (Some (VInt 34)); mkF [97] 12 BInt (Some Enc2C) false BInt None] in
  (forall x, In x fl -> fnum x) /\ NoDup (map fname fl) /\
  encode_msg (map mkp fl) None (VDict [([97], VInt (-2))]) = Ok ([34; 254; 15], false) /\
  encode_msg (map mkp fl) None (VDict [([97], VInt 2048)]) = Err ERej /\
  encode_msg (map mkp fl) None (VDict [([97], VStr [65])]) = Err ERej /\
  encode_msg (map mkp fl) None (VDict []) = Err ERej /\
  encode_msg (map mkp fl) None (VDict [([97], VInt 1); ([98], VInt 1)]) = Err ERej /\
  encode_msg (map mkp fl) None (VInt 5) = Err ERej.
Proof.
  intros fl. split; [|split].
  - intros x [<-|[<-|[]]]; (split; [cbn; lia|]); [left | right]; repeat split; auto.
  - repeat constructor; cbn; intuition discriminate.
  - vm_compute. repeat split; reflexivity.
Qed.

(* ======================================================================================== *)
(* C08: the parameters reported as required (filter is_required) are needed: a dictionary which lacks one
   of them is never accepted, whatever else it holds *)
Lemma enc_param_needs_required f x kv s s' :
  enc_param (S (S f)) (mkp x) kv s = Ok s' -> is_required (mkp x) = true -> lookup (fname x) kv <> None.
Proof.
  intros H R. unfold mkp in *. destruct (f_const x) as [cv|]; [discriminate R|].
  cbn [enc_param] in H. unfold is_required in H. cbn [pkind_of negb orb] in H.
  unfold fname. destruct (lookup (f_name x) kv); [discriminate | discriminate H].
Qed.

Lemma enc_go_needs_required f kv n eop : forall fl i s s',
  enc_go (S (S f)) kv n eop (map mkp fl) i s = Ok s' ->
  forall x, In x fl -> is_required (mkp x) = true -> lookup (fname x) kv <> None.
Proof.
  induction fl as [|y fl IH]; intros i s s' H x Hx R; [contradiction|]. cbn [map enc_go] in H.
  set (sa := if i =? n - 1 then set_eop s eop else s) in *.
  destruct (enc_param (S (S f)) (mkp y) kv sa) as [s1|e] eqn:E; [|discriminate]. cbn [bind] in H.
  destruct Hx as [->|Hx]; [eapply enc_param_needs_required; eassumption | eapply IH; eassumption].
Qed.

Theorem flat_required_needed fl kv x :
  (forall y, In y fl -> fnf y) -> In x fl -> is_required (mkp x) = true -> lookup (fname x) kv = None ->
  encode_msg (map mkp fl) None (VDict kv) = Err ERej.
Proof.
  intros Hw Hx R L. pose proof (flat_encode_outcome fl (VDict kv) Hw) as O.
  destruct (flat_fuel fl) as (k & Hk). rewrite (encode_msg_flat fl kv k Hk) in *.
  destruct (forallb (fun k0 => existsb (fun p => bytes_eqb (fst k0) (pname p)) (map mkp fl)) kv); [|reflexivity].
  destruct (enc_go (S (S k)) kv (zlen (map mkp fl)) (e_eop (estate0 None)) (map mkp fl) 0 s_init) as [s'|e] eqn:G.
  - exfalso. exact (enc_go_needs_required k kv _ _ fl 0 s_init s' G x Hx R L).
  - destruct e; try contradiction. reflexivity.
Qed.

(* which parameters these are: the VALUE parameters (none of them has a default here); the constants are not required *)
Lemma required_is_value x : is_required (mkp x) = is_value x.
Proof. unfold mkp, is_value, is_required. destruct (f_const x); reflexivity. Qed.
