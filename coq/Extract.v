(* Extraction of the executable models.  ExtrOcamlBasic only: bool, option,
   unit, list, prod, sumbool, sumor map to OCaml's; Z, positive, N, nat, Q stay
   the extracted Coq datatypes.  No Extract Constant. *)
From Coq Require Extraction.
From Coq Require Import ExtrOcamlBasic.
From Coq Require Import ZArith.
From OV Require Import Run.
Extraction "model.ml" run_wire Z.add Z.mul Z.opp Z.quotrem Z.of_nat Z.eqb Z.ltb.
