(* Dispatcher: one wire line = a list of cases [model_id; payload]. *)
From Coq Require Import ZArith List Bool.
From OV Require Import Base.Wire.
From OV Require Model.NamedList Model.IsoTp Model.CodecWire Model.Compu Model.Dispatch Model.Inherit Model.Variant Model.Compare Model.CompareParams Model.Links Model.Xml.
Import ListNotations.
Open Scope Z_scope.

Definition run_case (t : tok) : tok :=
  let m := tz (tnth (tl t) 0) in
  let p := tnth (tl t) 1 in
  if m =? 0 then p                                 (* echo: validates the wire codec *)
  else if m =? 16 then NamedList.run_case p
  else if m =? 12 then IsoTp.run_case p
  else if m =? 112 then IsoTp.segment_case p
  else if m =? 1 then CodecWire.run_case p
  else if m =? 7 then Compu.run_case p
  else if m =? 6 then Dispatch.run_case p
  else if m =? 9 then Inherit.run_case p
  else if m =? 14 then Variant.run_case p
  else if m =? 18 then Compare.run_case p
  else if m =? 118 then CompareParams.run_case p
  else if m =? 10 then Links.run_case p
  else if m =? 11 then Xml.run_case p
  else TL [TZ (-999)].

Definition run_wire (inp : list Z) : list Z :=
  match parse inp with
  | None => [-999]
  | Some cases => flat_map (fun c => ser (run_case c)) cases
  end.
