(* C05 -- decoding arbitrary bytes is total.
   The model's decoders are total Gallina functions with explicit fuel (so
   termination is by construction; EFuel is an explicit outcome).  PROVED HERE
   (atomic layer, every byte string / cursor / bit position / bit length): the
   outcome is a value or DecodeError, and a PDU that ends before the object is
   rejected.  The composite statement over description trees is correspondence
   + oracle (prefixes, mutations, random strings, somersault). *)
From Coq Require Import ZArith List Bool.
From OV Require Import Base.Bytes Base.Wire Generated Model.Str Model.Codec Proofs.BytesProofs Proofs.AtomicProofs Proofs.CodecProps.
Import ListNotations.
Open Scope Z_scope.

Theorem C05_atomic_total_partial : forall s bl bt en hl,
  wf_atom bt en hl = true -> dec_outcome_ok (extract_atomic s bl bt en hl).
Proof. exact extract_total. Qed.
Print Assumptions C05_atomic_total_partial.

Theorem C05_atomic_truncation : forall s bl bt en hl,
  bl <> 0 -> blen (d_msg s) < d_cur s + nbytes_of bl (d_bit s) ->
  extract_atomic s bl bt en hl = Err EDecode.
Proof. exact extract_truncated. Qed.
Print Assumptions C05_atomic_truncation.
