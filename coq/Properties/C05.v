(* C05 -- decoding arbitrary bytes is total.
   The model's decoders are total Gallina functions with explicit fuel (so
   termination is by construction; EFuel is an explicit outcome).  PROVED HERE
   (atomic layer, every byte string / cursor / bit position / bit length): the
   outcome is a value or DecodeError, and a PDU that ends before the object is
   rejected.  The composite statement over description trees is correspondence
   + oracle (prefixes, mutations, random strings, somersault). *)
From Coq Require Import ZArith List Bool.
From OV Require Import Base.Bytes Base.Wire Generated Model.Str Model.Codec Proofs.BytesProofs Proofs.AtomicProofs Proofs.CodecProps Proofs.FlatProofs Proofs.FlatDecodeProofs Proofs.TreeDecodeProofs Proofs.DecodeTotalProofs.
Import ListNotations.
Open Scope Z_scope.

Theorem C05_atomic_total_partial : forall s bl bt en hl,
  wf_atom bt en hl = true -> dec_outcome_ok (extract_atomic s bl bt en hl).
Proof. exact extract_total. Qed.
Print Assumptions C05_atomic_total_partial.

Theorem C05_atomic_truncation : forall s bl bt en hl,
  bl <> 0 -> blen (d_msg s) < d_cur s + nbytes_of bl (d_bit s) ->
  extract_atomic s bl bt en hl = Err EDecode.
Proof. exact extract_truncated. Qed.
Print Assumptions C05_atomic_truncation.

(* ---------- message level (Proofs/FlatDecodeProofs.v), about the model's entry point decode_msg ---------- *)
(* for every message which is a sequence of any number of CODED-CONST / VALUE parameters with implicit
   positions over STANDARD-LENGTH types of positive bit length and a legal base type / encoding pair
   (no bit mask, IDENTICAL compu method), and EVERY byte string: the outcome is a dictionary of values or a
   decode error -- no other error class, no fuel exhaustion *)
Theorem C05_flat_message_total : forall fl m,
  (forall x, In x fl -> fwf x) -> dec_outcome_ok (decode_msg (map mkp fl) m).
Proof. exact flat_decode_total. Qed.
Print Assumptions C05_flat_message_total.

(* a PDU that ends before the last described parameter is rejected with a decode error, never completed *)
Theorem C05_flat_message_truncation : forall fl m,
  (forall x, In x fl -> fwf x) -> blen m < total_bytes fl ->
  decode_msg (map mkp fl) m = Err EDecode \/ decode_msg (map mkp fl) m = Err EMismatch.
Proof. exact flat_truncated_rejected. Qed.
Print Assumptions C05_flat_message_truncation.

Theorem C05_flat_shorter_than_static : forall fl m sb,
  (forall x, In x fl -> fwf x) -> static_bits_msg (map mkp fl) = Some sb -> 8 * blen m < sb ->
  decode_msg (map mkp fl) m = Err EDecode \/ decode_msg (map mkp fl) m = Err EMismatch.
Proof. exact flat_shorter_than_static_rejected. Qed.
Print Assumptions C05_flat_shorter_than_static.

Theorem C05_flat_decoded_is_long_enough : forall fl m v,
  (forall x, In x fl -> fwf x) -> decode_msg (map mkp fl) m = Ok v -> total_bytes fl <= blen m.
Proof. exact flat_decoded_is_long_enough. Qed.
Print Assumptions C05_flat_decoded_is_long_enough.

(* the premises are satisfiable, both outcomes occur *)
Example C05_flat_example :
  let fl := [mkF [115] 8 BUint None true BUint (Some (VInt 34)); mkF [97] 12 BUint None false BUint None] in
  (forall x, In x fl -> fwf x) /\ total_bytes fl = 3 /\
  decode_msg (map mkp fl) [34; 1] = Err EDecode /\
  decode_msg (map mkp fl) [34; 1; 2; 9] = Ok (VDict [([115], VInt 34); ([97], VInt 513)]).
Proof. exact flat_decode_example. Qed.
Print Assumptions C05_flat_example.

(* ---------- structures nested to any depth (Proofs/TreeDecodeProofs.v) ---------- *)
(* the same two statements for messages whose parameters are standard-length parameters or STRUCTUREs of such,
   recursively (side condition: the model's fuel suffices for the nesting depth, a computable inequality) *)
Theorem C05_nested_message_total : forall ts d m,
  (forall t, In t ts -> (d_depth t <= d)%nat /\ d_wf t) ->
  (3 * d + 3 <= fuel_of (map d_p ts))%nat ->
  dec_outcome_ok (decode_msg (map d_p ts) m).
Proof. exact tree_decode_total. Qed.
Print Assumptions C05_nested_message_total.

Theorem C05_nested_message_truncation : forall ts d m,
  (forall t, In t ts -> (d_depth t <= d)%nat /\ d_wf t) ->
  (3 * d + 3 <= fuel_of (map d_p ts))%nat ->
  blen m < msg_bytes ts ->
  decode_msg (map d_p ts) m = Err EDecode \/ decode_msg (map d_p ts) m = Err EMismatch.
Proof. exact tree_truncated_rejected. Qed.
Print Assumptions C05_nested_message_truncation.

Example C05_nested_example :
  let u8 nm := mkF nm 8 BUint None true BUint None in
  let ts := [DLeaf (mkF [115] 8 BUint None true BUint (Some (VInt 34)));
             DNode [111] [DLeaf (u8 [97]); DNode [105] [DLeaf (mkF [98] 12 BUint None false BUint None); DLeaf (u8 [99])]];
             DLeaf (u8 [122])] in
  (forall t, In t ts -> (d_depth t <= 2)%nat /\ d_wf t) /\
  (3 * 2 + 3 <= fuel_of (map d_p ts))%nat /\ msg_bytes ts = 6 /\
  decode_msg (map d_p ts) [34; 1; 188; 10; 3] = Err EDecode /\
  (exists v, decode_msg (map d_p ts) [34; 1; 188; 10; 3; 255; 9] = Ok v).
Proof. exact tree_decode_example. Qed.
Print Assumptions C05_nested_example.

(* ---------- messages with lists (Proofs/DecodeTotalProofs.v) ---------- *)
(* descriptions (xdesc): standard-length CODED-CONST / VALUE parameters, STRUCTUREs with or without BYTE-SIZE,
   STATIC-FIELDs, DYNAMIC-LENGTH-FIELDs (unsigned count of any positive bit length), END-OF-PDU-FIELDs of
   structures and MULTIPLEXERs (XMux: unsigned switch key of any positive bit length, any list of key ranges --
   overlapping, empty or unordered --, cases with or without content, optional default case), nested to any depth.
   For EVERY byte string the outcome of decoding is a dictionary or a decode error:
   no other error class, and the loops which run to the end of the PDU never exhaust their fuel, i.e. terminate *)
Theorem C05_message_with_fields_total : forall ts d m,
  (forall t, In t ts -> (x_depth t <= d)%nat /\ x_wf t) ->
  (4 * d + 3 <= fuel_of (map x_p ts))%nat ->
  dec_outcome_ok (decode_msg (map x_p ts) m).
Proof. exact fields_decode_total. Qed.
Print Assumptions C05_message_with_fields_total.

(* the description language in full: what an xdesc stands for *)
Theorem C05_multiplexer_description : forall nm kbl hl lims cs ds,
  x_p (XMux nm kbl hl lims cs ds) =
  P nm None None (KValue (DMux (nbytes_of kbl 0) 0 0 (DSimple (Std BUint None hl kbl None) CIdent BUint)
                               (map (fun lp => MC (pname (snd lp)) (fst (fst lp)) (snd (fst lp)) (case_dop (snd lp)))
                                    (combine lims (map x_p cs)))
                               (match map x_p ds with d :: _ => Some (MC (pname d) 0 0 (case_dop d)) | [] => None end))
                         None).
Proof. intros. reflexivity. Qed.
Print Assumptions C05_multiplexer_description.

Example C05_multiplexer_example :
  let u8 nm := mkF nm 8 BUint None true BUint None in
  let u16 nm := mkF nm 16 BUint None true BUint None in
  let mk ds := [XLeaf (mkF [115] 8 BUint None true BUint (Some (VInt 34)));
                XMux [109] 8 true [(16, 31); (32, 32)]
                     [XStruct [120] [XLeaf (u8 [97]); XLeaf (u16 [98])] None;
                      XLeaf (mkF [121] 8 BUint None true BUint (Some (VInt 0)))] ds;
                XEop [101] [XLeaf (u8 [122])]] in
  let ts := mk [XStruct [100] [XLeaf (u8 [100])] None] in
  (forall t, In t ts -> (x_depth t <= 2)%nat /\ x_wf t) /\
  (4 * 2 + 3 <= fuel_of (map x_p ts))%nat /\
  (exists v, decode_msg (map x_p ts) [34; 17; 7; 1; 2; 9; 9] = Ok v) /\
  (exists v, decode_msg (map x_p ts) [34; 32; 9] = Ok v) /\
  (exists v, decode_msg (map x_p ts) [34; 200; 5] = Ok v) /\
  decode_msg (map x_p ts) [34; 17; 7; 1] = Err EDecode /\
  decode_msg (map x_p ts) [34] = Err EDecode /\
  decode_msg (map x_p (mk [])) [34; 200; 5] = Err EDecode.
Proof. exact mux_decode_example. Qed.
Print Assumptions C05_multiplexer_example.

Example C05_fields_example :
  let u8 nm := mkF nm 8 BUint None true BUint None in
  let u16 nm := mkF nm 16 BUint None true BUint None in
  let ts := [XLeaf (mkF [115] 8 BUint None true BUint (Some (VInt 98)));
             XDyn [100] [XLeaf (u8 [97]); XStatic [110] [XLeaf (u16 [118])] 2 2] 8 true;
             XStruct [112] [XLeaf (u8 [113])] (Some 4);
             XEop [101] [XLeaf (u8 [120]); XLeaf (u16 [121])]] in
  (forall t, In t ts -> (x_depth t <= 2)%nat /\ x_wf t) /\
  (4 * 2 + 3 <= fuel_of (map x_p ts))%nat /\
  (exists v, decode_msg (map x_p ts) [98; 1; 7; 0; 1; 0; 2; 5; 0; 0; 0; 1; 2; 3; 4; 5; 6] = Ok v) /\
  decode_msg (map x_p ts) [98; 1; 7; 0; 1; 0; 2; 5; 0; 0; 0; 1; 2; 3; 4; 5] = Err EDecode /\
  decode_msg (map x_p ts) [98; 2; 7; 0; 1; 0; 2; 5] = Err EDecode.
Proof. exact fields_decode_example. Qed.
Print Assumptions C05_fields_example.
