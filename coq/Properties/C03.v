(* C03 -- decoding a PDU and re-encoding the result reproduces the PDU.
   PROVED HERE (atomic layer): every canonical raw value re-encodes to itself; the
   only non-canonical raw values of integers are the negative zeros of 1C / SM.
   The compu-method half is in Properties/C07.v; the composite statement is
   correspondence + oracle only. *)
From Coq Require Import ZArith List Bool.
From OV Require Import Base.Bytes Base.Wire Generated Model.Str Model.Codec Proofs.BytesProofs Proofs.AtomicProofs Proofs.CodecProps.
Import ListNotations.
Open Scope Z_scope.

Theorem C03_signed_decode_encode_partial : forall raw bl en hl z,
  0 < bl -> 0 <= raw < 2 ^ bl ->
  (en = None \/ en = Some Enc2C \/ en = Some Enc1C \/ en = Some EncSM) ->
  raw <> neg_zero en bl ->
  value_of_raw raw bl BInt en hl = Ok (VInt z) -> raw_of (VInt z) bl BInt en hl = Ok raw.
Proof. exact int_decode_encode. Qed.
Print Assumptions C03_signed_decode_encode_partial.

Theorem C03_unsigned_decode_encode : forall raw bl en hl z,
  0 <= bl -> 0 <= raw < 2 ^ bl -> (en = None \/ en = Some EncNONE) ->
  value_of_raw raw bl BUint en hl = Ok (VInt z) -> raw_of (VInt z) bl BUint en hl = Ok raw.
Proof. exact uint_decode_encode. Qed.
Print Assumptions C03_unsigned_decode_encode.

Theorem C03_bytefield_decode_encode : forall raw bl en hl b,
  0 <= bl -> bl mod 8 = 0 -> 0 <= raw < 2 ^ bl ->
  value_of_raw raw bl BBytes en hl = Ok (VBytes b) -> raw_of (VBytes b) bl BBytes en hl = Ok raw.
Proof. exact bytes_decode_encode. Qed.
Print Assumptions C03_bytefield_decode_encode.

(* the negative zero of one's complement is the witness that canonicity is needed *)
Theorem C03_negative_zero_refuted :
  exists raw z, value_of_raw raw 8 BInt (Some Enc1C) true = Ok (VInt z)
                /\ raw_of (VInt z) 8 BInt (Some Enc1C) true <> Ok raw.
Proof. exists 255, 0. vm_compute. split; [reflexivity | discriminate]. Qed.
Print Assumptions C03_negative_zero_refuted.
