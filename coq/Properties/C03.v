(* C03 -- decoding a PDU and re-encoding the result reproduces the PDU.
   PROVED HERE (atomic layer): every canonical raw value re-encodes to itself; the
   only non-canonical raw values of integers are the negative zeros of 1C / SM.
   PROVED AT MESSAGE LEVEL (C03_flat_message_reencode): a message of a description which is
   a sequence of standard-length CODED-CONST / VALUE parameters with implicit positions,
   made of canonical slices (no stray bits above the bit length, raw values the encoder
   produces), decodes to values whose encoding is the message again -- about the model's
   real entry points decode_msg / encode_msg.
   The compu-method half is in Properties/C07.v; general parameter trees are
   correspondence + oracle only. *)
From Coq Require Import ZArith List Bool.
From OV Require Import Base.Bytes Base.Wire Generated Model.Str Model.Codec Proofs.BytesProofs Proofs.AtomicProofs Proofs.CodecProps Proofs.FlatProofs Proofs.TreeProofs Proofs.TreeWireProofs Proofs.FieldProofs Proofs.DynFieldProofs Proofs.EopFieldProofs Proofs.KeyScopeProofs.
Import ListNotations.
Open Scope Z_scope.

Theorem C03_signed_decode_encode_partial : forall raw bl en hl z,
  0 < bl -> 0 <= raw < 2 ^ bl ->
  (en = None \/ en = Some Enc2C \/ en = Some Enc1C \/ en = Some EncSM) ->
  raw <> neg_zero en bl ->
  value_of_raw raw bl BInt en hl = Ok (VInt z) -> raw_of (VInt z) bl BInt en hl = Ok raw.
Proof. exact int_decode_encode. Qed.
Print Assumptions C03_signed_decode_encode_partial.

Theorem C03_unsigned_decode_encode : forall raw bl en hl z,
  0 <= bl -> 0 <= raw < 2 ^ bl -> (en = None \/ en = Some EncNONE) ->
  value_of_raw raw bl BUint en hl = Ok (VInt z) -> raw_of (VInt z) bl BUint en hl = Ok raw.
Proof. exact uint_decode_encode. Qed.
Print Assumptions C03_unsigned_decode_encode.

Theorem C03_bytefield_decode_encode : forall raw bl en hl b,
  0 <= bl -> bl mod 8 = 0 -> 0 <= raw < 2 ^ bl ->
  value_of_raw raw bl BBytes en hl = Ok (VBytes b) -> raw_of (VBytes b) bl BBytes en hl = Ok raw.
Proof. exact bytes_decode_encode. Qed.
Print Assumptions C03_bytefield_decode_encode.

(* the negative zero of one's complement is the witness that canonicity is needed *)
Theorem C03_negative_zero_refuted :
  exists raw z, value_of_raw raw 8 BInt (Some Enc1C) true = Ok (VInt z)
                /\ raw_of (VInt z) 8 BInt (Some Enc1C) true <> Ok raw.
Proof. exists 255, 0. vm_compute. split; [reflexivity | discriminate]. Qed.
Print Assumptions C03_negative_zero_refuted.

Theorem C03_flat_message_reencode : forall fl vv ws,
  Forall2 (fun x w => sane vv x /\ canon vv x w) fl ws -> NoDup (map fname fl) ->
  decode_msg (map mkp fl) (concat ws) = Ok (VDict (fvals vv fl)) /\
  encode_msg (map mkp fl) None (VDict (fvals vv (filter is_value fl))) = Ok (concat ws, false).
Proof. exact flat_reencode. Qed.
Print Assumptions C03_flat_message_reencode.

(* the hypothesis is met by every unsigned integer slice without stray bits *)
Theorem C03_canon_uint : forall vv nm bl hl cst w,
  0 < bl -> bytes_ok w = true -> blen w = nbytes_of bl 0 ->
  be_int (if negb hl && true then rev w else w) < 2 ^ bl ->
  vv nm = VInt (be_int (if negb hl && true then rev w else w)) ->
  canon vv (mkF nm bl BUint None hl BUint cst) w.
Proof. exact canon_uint. Qed.
Print Assumptions C03_canon_uint.

(* ... and stray bits are indeed not reproduced (the 12 bit value in BC FA) *)
Theorem C03_flat_example :
  let fl := [mkF [115] 8 BUint None true BUint (Some (VInt 34)); mkF [112; 50] 12 BUint None false BUint None] in
  let vv := fun nm => if bytes_eqb nm [115] then VInt 34 else VInt 2748 in
  decode_msg (map mkp fl) [34; 188; 10] = Ok (VDict (fvals vv fl)) /\
  encode_msg (map mkp fl) None (VDict (fvals vv (filter is_value fl))) = Ok ([34; 188; 10], false) /\
  (exists v, decode_msg (map mkp fl) [34; 188; 250] = Ok v /\
             encode_msg (map mkp fl) None (VDict (fvals vv (filter is_value fl))) <> Ok ([34; 188; 250], false)).
Proof. exact reencode_example. Qed.
Print Assumptions C03_flat_example.

(* ---------- structures nested to any depth (Proofs/TreeWireProofs.v) ---------- *)
(* a PDU which is the concatenation of canonical leaf slices (no stray bits above the bit lengths), for a message
   whose parameters are standard-length parameters or STRUCTUREs of such, recursively: it decodes, and encoding the
   decoded values with the same description yields the identical byte string, without overlap warning *)
Theorem C03_nested_message_reencode : forall ts d,
  (forall t, In t ts -> (wdepth t <= d)%nat /\ wwf t) ->
  NoDup (map (fun t => pname (w_p (t_w t))) ts) ->
  let ws := map t_w ts in
  let ps := map w_p ws in
  let msg := concat (flat_map leaves ts) in
  (3 * d + 3 <= fuel_of ps)%nat ->
  decode_msg ps msg = Ok (VDict (out_dict (map t_member (map to_f ts)))) /\
  encode_msg ps None (VDict (in_dict (map as_m ws))) = Ok (msg, false).
Proof. exact tree_reencode. Qed.
Print Assumptions C03_nested_message_reencode.

(* ---------- lists of structures (Proofs/FieldProofs.v, DynFieldProofs.v, PadProofs.v) ---------- *)
(* a PDU which is the concatenation of the bytes of good members -- canonical leaves (leaf_rm x vv w with canon vv x w),
   structures, STATIC-FIELDs (zero padding included) and DYNAMIC-LENGTH-FIELDs of structures of such, nested --
   decodes, and encoding the decoded values yields the identical byte string *)
Theorem C03_message_of_members_reencode : forall k rs,
  (forall x, In x rs -> rgood k x) -> NoDup (map m_name (rms rs)) ->
  let ps := map m_p (rms rs) in
  (k + 1 <= fuel_of ps)%nat ->
  decode_msg ps (rbytes rs) = Ok (VDict (out_dict (rms rs))) /\
  encode_msg ps None (VDict (in_dict (rms rs))) = Ok (rbytes rs, false).
Proof. intros k rs Hg ND ps Hf. destruct (rmessage_roundtrip k rs Hg ND Hf) as [E D]. split; assumption. Qed.
Print Assumptions C03_message_of_members_reencode.

(* ---------- messages which end in an END-OF-PDU-FIELD (Proofs/EopFieldProofs.v) ---------- *)
(* a PDU which is the bytes of good members followed by the bytes of any number of items decodes, and encoding the
   decoded values yields the identical byte string *)
Theorem C03_end_of_pdu_field_reencode : forall k rs nm psi (items : list (list rmem)),
  (forall x, In x rs -> rgood k x) ->
  (forall it, In it items -> eitem_ok k psi it) ->
  let ms := rms rs ++ [eop_member nm psi items] in
  NoDup (map m_name ms) ->
  let ps := map m_p ms in
  (k + 5 <= fuel_of ps)%nat ->
  let pdu := rbytes rs ++ concat (map rbytes items) in
  decode_msg ps pdu = Ok (VDict (out_dict ms)) /\
  encode_msg ps None (VDict (in_dict ms)) = Ok (pdu, false).
Proof.
  intros k rs nm psi items Hg Hit ms ND ps Hf pdu.
  destruct (eop_message_roundtrip k rs nm psi items Hg Hit ND Hf) as [E D]. split; assumption.
Qed.
Print Assumptions C03_end_of_pdu_field_reencode.

(* ---------- the keys of an object are its own (Proofs/KeyScopeProofs.v) ---------- *)
(* Before it encodes its parameters a structure forgets what was determined for LENGTH-KEYs named like its own (so that
   every item of a field determines its own key; before the fix commit "items of a field shared the values of their
   length- and table keys" a PDU whose items differ in length decoded, but its values could not be encoded again), and
   it keeps every other key. *)
Theorem C03_own_keys_forgotten : forall ps s nm,
  In nm (own_keys ps) -> lookup nm (e_lkeys (drop_keys (own_keys ps) s)) = None.
Proof. exact own_keys_forgotten. Qed.
Print Assumptions C03_own_keys_forgotten.

Theorem C03_other_keys_kept : forall ps s nm,
  ~ In nm (own_keys ps) -> lookup nm (e_lkeys (drop_keys (own_keys ps) s)) = lookup nm (e_lkeys s).
Proof. exact other_keys_kept. Qed.
Print Assumptions C03_other_keys_kept.

Theorem C03_own_keys_are_the_length_keys : forall ps nm,
  In nm (own_keys ps) <-> exists p d, In p ps /\ pkind_of p = KLenKey d /\ pname p = nm.
Proof. exact own_keys_spec. Qed.
Print Assumptions C03_own_keys_are_the_length_keys.

Example C03_keyed_items_example :
  let item b := VDict [([98], VBytes b)] in
  let full l b := VDict [([108], VInt l); ([98], VBytes b)] in
  let pdu := [34; 16; 120; 121; 8; 122; 0; 24; 117; 118; 119] in
  encode_msg ks_msg None (VDict [([102], VList [item [120; 121]; item [122]; item []; item [117; 118; 119]])]) = Ok (pdu, false) /\
  decode_msg ks_msg pdu =
    Ok (VDict [([115], VInt 34); ([102], VList [full 16 [120; 121]; full 8 [122]; full 0 []; full 24 [117; 118; 119]])]) /\
  encode_msg ks_msg None (VDict [([102], VList [full 16 [120; 121]; full 8 [122]; full 0 []; full 24 [117; 118; 119]])]) = Ok (pdu, false).
Proof. exact keyed_items_example. Qed.
Print Assumptions C03_keyed_items_example.
