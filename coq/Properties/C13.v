(* C13 -- malformed or lossy CAN traffic never crashes or fabricates telegrams.
   The model is total and has no exceptional outcome: "never raises" is the
   correspondence obligation (the implementation must agree with this total
   function on every frame sequence tried). *)
From Coq Require Import ZArith List Bool.
From OV Require Import Base.Wire Generated Model.IsoTp Proofs.IsoTpProofs.
Import ListNotations.
Open Scope Z_scope.

(* provenance: for EVERY frame sequence ds fed to an id (starting with no
   transfer in progress), every telegram reported is either the payload of a
   single frame of ds, or the announced-length prefix of the payload of one
   first frame of ds followed by consecutive frames of ds that come after it,
   in order, with sequence numbers 1,2,3,... (mod 16) *)
(* (the announced length and the payload of a first frame, spelled out: the 12 bit length and the bytes behind it, or -- a
   zero 12 bit length in a frame of at least six bytes, ISO 15765-2:2016 -- the 32 bit number which follows and the
   bytes behind that) *)
Theorem C13_announced_length_defs : forall d,
  ff_len d = (if ff_esc d then be_len (take 4 (skipn 2 d)) else (nth 0 d 0 mod 16) * 256 + nth 1 d 0) /\
  ff_pl d = (if ff_esc d then drop 4 (skipn 2 d) else skipn 2 d) /\
  ff_esc d = ((nth 0 d 0 mod 16) * 256 + nth 1 d 0 =? 0) && (6 <=? blen d).
Proof. intros d. repeat split. Qed.
Print Assumptions C13_announced_length_defs.

Theorem C13_provenance :
  forall (ds : list (list Z)) (t : list Z),
    In t (snd (slot_run slot0 ds)) -> justified ds t.
Proof. intros ds t H. exact (run_provenance ds [] slot0 I t H). Qed.
Print Assumptions C13_provenance.

(* each first frame yields at most one telegram: over any stretch of frames
   without a (well-formed) first frame, the number of telegrams is at most the
   number of single frames plus one if a transfer was in progress *)
Theorem C13_at_most_once :
  forall (ds : list (list Z)) (s : slot),
    forallb (fun d => negb (is_ff d)) ds = true ->
    (List.length (snd (slot_run s ds)) <= List.length (filter is_sf ds) + pending s)%nat.
Proof. exact run_count. Qed.
Print Assumptions C13_at_most_once.

(* recovery: after ANY history, a well-formed transfer on an id is reassembled *)
Theorem C13_recovery :
  forall (rx_ids : list Z) (hist : list frame) (a : Z) (x : transfer),
    In a rx_ids -> tr_ok x ->
    snd (run (fst (run (machine0 rx_ids) hist)) (map (fun d => (a, d)) (tr_frames x)))
    = [(a, tr_tele x)].
Proof. exact recovery. Qed.
Print Assumptions C13_recovery.

(* frames of other ids (and of unknown ids) never disturb an id *)
Theorem C13_locality :
  forall (a : Z) (rx_ids : list Z) (fs : list frame),
    tele_of a (telegrams rx_ids fs)
    = tele_of a (telegrams rx_ids (filter (fun f => fst f =? a) fs)).
Proof. exact projection. Qed.
Print Assumptions C13_locality.
