(* C08 -- static descriptions of a message agree with its actual encoding.
   PROVED HERE (atomic layer): a successful emplace advances the cursor by exactly
   ceil((bit position + bit length) / 8) bytes, which is the summand of the static
   length computation (composite_codec_get_static_bit_length).  The message-level
   statements (static length, constant prefix, required/free) are correspondence
   + oracle only.  Known finding: condensed bit masks (see known_findings.json). *)
From Coq Require Import ZArith List Bool.
From OV Require Import Base.Bytes Base.Wire Generated Model.Str Model.Codec Proofs.BytesProofs Proofs.AtomicProofs Proofs.CodecProps.
Import ListNotations.
Open Scope Z_scope.

Theorem C08_atomic_cursor_partial : forall s v bl bt en hl s' raw,
  0 < bl -> 0 <= e_cur s -> 0 <= e_bit s -> bytes_ok (e_msg s) = true ->
  raw_of v bl bt en hl = Ok raw -> 0 <= raw < 2 ^ bl ->
  emplace_atomic s v bl bt en hl None = Ok s' ->
  e_cur s' = e_cur s + (bl + e_bit s + 7) / 8.
Proof.
  intros s v bl bt en hl s' raw H1 H2 H3 H4 H5 H6 H7.
  exact (proj1 (proj2 (emplace_then_extract s v bl bt en hl s' raw [] H1 H2 H3 H4 H5 H6 H7))).
Qed.
Print Assumptions C08_atomic_cursor_partial.

Theorem C08_static_length_of_standard_type : forall bt en hl bl mask,
  static_bits_dct (Std bt en hl bl mask) = Some bl.
Proof. reflexivity. Qed.
Print Assumptions C08_static_length_of_standard_type.
