(* C08 -- static descriptions of a message agree with its actual encoding.
   PROVED HERE (atomic layer): a successful emplace advances the cursor by exactly
   ceil((bit position + bit length) / 8) bytes, which is the summand of the static
   length computation (composite_codec_get_static_bit_length).
   PROVED AT MESSAGE LEVEL (C08_flat_static_length, C08_flat_length_is_static): for
   messages which are a sequence of standard-length CODED-CONST / VALUE parameters with implicit
   positions the static bit length is 8 x the length of every successful encoding.
   The other message-level statements (other parameter kinds, constant prefix,
   required/free) are correspondence + oracle only.  Known finding: condensed bit masks (see known_findings.json). *)
From Coq Require Import ZArith List Bool.
From OV Require Import Base.Bytes Base.Wire Generated Model.Str Model.Codec Proofs.BytesProofs Proofs.AtomicProofs Proofs.CodecProps Proofs.FlatProofs Proofs.FlatEncodeProofs Proofs.TreeProofs Proofs.TreeWireProofs Proofs.FieldProofs Proofs.PadProofs Proofs.BStructProofs Proofs.LinearLeafProofs Proofs.ReservedProofs Proofs.StaticLenProofs.
Import ListNotations.
Open Scope Z_scope.

Theorem C08_atomic_cursor_partial : forall s v bl bt en hl s' raw,
  0 < bl -> 0 <= e_cur s -> 0 <= e_bit s -> bytes_ok (e_msg s) = true ->
  raw_of v bl bt en hl = Ok raw -> 0 <= raw < 2 ^ bl ->
  emplace_atomic s v bl bt en hl None = Ok s' ->
  e_cur s' = e_cur s + (bl + e_bit s + 7) / 8.
Proof.
  intros s v bl bt en hl s' raw H1 H2 H3 H4 H5 H6 H7.
  exact (proj1 (proj2 (emplace_then_extract s v bl bt en hl s' raw [] H1 H2 H3 H4 H5 H6 H7))).
Qed.
Print Assumptions C08_atomic_cursor_partial.

Theorem C08_static_length_of_standard_type : forall bt en hl bl mask,
  static_bits_dct (Std bt en hl bl mask) = Some bl.
Proof. reflexivity. Qed.
Print Assumptions C08_static_length_of_standard_type.

Theorem C08_flat_static_length : forall fl,
  (forall x, In x fl -> 0 < f_bl x) ->
  static_bits_msg (map mkp fl) = Some (8 * fold_right (fun x a => fbytes x + a) 0 fl).
Proof. exact flat_static_length. Qed.
Print Assumptions C08_flat_static_length.

Theorem C08_flat_length_is_static : forall fl vv msg w,
  (forall x, In x fl -> fits x (vv (fname x))) -> NoDup (map fname fl) ->
  encode_msg (map mkp fl) None (VDict (fvals vv (filter is_value fl))) = Ok (msg, w) ->
  static_bits_msg (map mkp fl) = Some (8 * blen msg).
Proof. exact flat_length_is_static. Qed.
Print Assumptions C08_flat_length_is_static.

(* ---------- required / free parameters of flat messages (Proofs/FlatEncodeProofs.v) ---------- *)
(* the parameters reported as required (filter is_required, what CodecWire returns) are exactly the VALUE
   parameters; a dictionary which lacks one of them is never accepted, whatever else it holds ... *)
Theorem C08_flat_required_needed : forall fl kv x,
  (forall y, In y fl -> fnf y) -> In x fl -> is_required (mkp x) = true -> lookup (fname x) kv = None ->
  encode_msg (map mkp fl) None (VDict kv) = Err ERej.
Proof. exact flat_required_needed. Qed.
Print Assumptions C08_flat_required_needed.

Theorem C08_flat_required_are_the_value_parameters : forall x, is_required (mkp x) = is_value x.
Proof. exact required_is_value. Qed.
Print Assumptions C08_flat_required_are_the_value_parameters.

(* ... and a dictionary which holds exactly the required ones (no constant) is accepted whenever the values fit:
   this is the encoding half of C01_flat_message_roundtrip, restated *)
Theorem C08_flat_required_suffice : forall fl vv,
  (forall x, In x fl -> fits x (vv (fname x))) -> NoDup (map fname fl) ->
  exists msg, encode_msg (map mkp fl) None (VDict (fvals vv (filter is_value fl))) = Ok (msg, false).
Proof. intros fl vv H ND. destruct (flat_roundtrip fl vv H ND) as (m & E & _). now exists m. Qed.
Print Assumptions C08_flat_required_suffice.

(* ---------- structures nested to any depth (Proofs/TreeWireProofs.v) ---------- *)
(* the static bit length reported for a message whose parameters are standard-length parameters or STRUCTUREs of
   such, recursively, is 8 x the bytes of its leaves ... *)
Theorem C08_nested_static_length : forall ts d,
  (forall t, In t ts -> (wdepth t <= d)%nat /\ tpos t) ->
  let ps := map w_p (map t_w ts) in
  (d + 2 <= fuel_of ps)%nat ->
  static_bits_msg ps = Some (8 * fold_right (fun t a => tbytes t + a) 0 ts).
Proof. exact tree_static_length. Qed.
Print Assumptions C08_nested_static_length.

(* ... and every encoding occupies exactly that many bits *)
Theorem C08_nested_length_is_static : forall ts d,
  (forall t, In t ts -> (wdepth t <= d)%nat /\ wwf t) ->
  NoDup (map (fun t => pname (w_p (t_w t))) ts) ->
  let ws := map t_w ts in
  let ps := map w_p ws in
  (3 * d + 3 <= fuel_of ps)%nat ->
  exists msg, encode_msg ps None (VDict (in_dict (map as_m ws))) = Ok (msg, false) /\
              static_bits_msg ps = Some (8 * blen msg).
Proof. exact tree_length_is_static. Qed.
Print Assumptions C08_nested_length_is_static.

(* ---------- messages of good members (Proofs/StaticLenProofs.v) ---------- *)
(* sgood f x: member x has implicit positions and reports a static bit length which rounds up to the number of its
   bytes. Leaves, LINEAR leaves, structures of such members and structures with BYTE-SIZE (whatever they contain)
   are such; a message of such members reports 8 x the length of its encoding *)
Theorem C08_members_static_length : forall rs F,
  fuel_of (map m_p (rms rs)) = S F -> (forall x, In x rs -> sgood F x) ->
  static_bits_msg (map m_p (rms rs)) = Some (8 * blen (rbytes rs)).
Proof. exact members_static_length. Qed.
Print Assumptions C08_members_static_length.

Theorem C08_members_length_is_static : forall k rs F,
  (forall x, In x rs -> rgood k x) -> NoDup (map m_name (rms rs)) ->
  fuel_of (map m_p (rms rs)) = S F -> (k <= F)%nat -> (forall x, In x rs -> sgood F x) ->
  exists pdu, encode_msg (map m_p (rms rs)) None (VDict (in_dict (rms rs))) = Ok (pdu, false) /\
              static_bits_msg (map m_p (rms rs)) = Some (8 * blen pdu).
Proof. exact members_length_is_static. Qed.
Print Assumptions C08_members_length_is_static.

Theorem C08_static_members : forall f,
  (forall x vv w, canon vv x w -> 0 < f_bl x -> sgood (S f) (leaf_rm x vv w)) /\
  (forall nm bl hl off num lo hi x, 0 < bl -> sgood (S f) (lin_rm nm bl hl off num lo hi x)) /\
  (forall nm rs b, blen (rbytes rs) <= b -> sgood (S f) (bstruct_rm nm rs b)) /\
  (forall nm rs, (forall x, In x rs -> sgood f x) -> sgood (S f) (struct_rm nm rs)).
Proof.
  intros f. split; [|split; [|split]].
  - intros x vv w. apply leaf_sgood.
  - intros nm bl hl off num lo hi x. apply lin_sgood.
  - intros nm rs b. apply bstruct_sgood.
  - intros nm rs. apply struct_sgood.
Qed.
Print Assumptions C08_static_members.

Example C08_members_example :
  let u8 nm := mkF nm 8 BUint None true BUint None in
  let u16 nm := mkF nm 16 BUint None true BUint None in
  let vv (z : Z) := fun _ : name => VInt z in
  let inner := [leaf_rm (u8 [97]) (vv 7) (wire_bytes (u8 [97]) 7); leaf_rm (u16 [98]) (vv 258) (wire_bytes (u16 [98]) 258)] in
  let rs := [leaf_rm (mkF [115] 8 BUint None true BUint (Some (VInt 34))) (vv 34) [34];
             bstruct_rm [116] inner 5;
             struct_rm [117] [lin_rm [99] 8 true (-40) 2 None None 100; leaf_rm (u16 [100]) (vv 3) (wire_bytes (u16 [100]) 3)]] in
  static_bits_msg (map m_p (rms rs)) = Some 72 /\
  encode_msg (map m_p (rms rs)) None (VDict (in_dict (rms rs))) = Ok ([34; 7; 1; 2; 0; 0; 100; 0; 3], false).
Proof. exact static_len_example. Qed.
Print Assumptions C08_members_example.

Example C08_members_premises :
  let u8 nm := mkF nm 8 BUint None true BUint None in
  let u16 nm := mkF nm 16 BUint None true BUint None in
  let vv (z : Z) := fun _ : name => VInt z in
  let inner := [leaf_rm (u8 [97]) (vv 7) (wire_bytes (u8 [97]) 7); leaf_rm (u16 [98]) (vv 258) (wire_bytes (u16 [98]) 258)] in
  let rs := [leaf_rm (mkF [115] 8 BUint None true BUint (Some (VInt 34))) (vv 34) (wire_bytes (mkF [115] 8 BUint None true BUint (Some (VInt 34))) 34);
             bstruct_rm [116] inner 5;
             struct_rm [117] [lin_rm [99] 8 true (-40) 2 None None 100; leaf_rm (u16 [100]) (vv 3) (wire_bytes (u16 [100]) 3)]] in
  forall F, fuel_of (map m_p (rms rs)) = S F -> forall x, In x rs -> sgood F x.
Proof. exact static_len_premises. Qed.
Print Assumptions C08_members_premises.

Theorem C08_reserved_is_static : forall f nm bl, 0 < bl -> sgood f (reserved_rm nm bl).
Proof. exact reserved_sgood. Qed.
Print Assumptions C08_reserved_is_static.
