(* C08 -- static descriptions of a message agree with its actual encoding.
   PROVED HERE (atomic layer): a successful emplace advances the cursor by exactly
   ceil((bit position + bit length) / 8) bytes, which is the summand of the static
   length computation (composite_codec_get_static_bit_length).
   PROVED AT MESSAGE LEVEL (C08_flat_static_length, C08_flat_length_is_static): for
   messages which are a sequence of standard-length CODED-CONST / VALUE parameters with implicit
   positions the static bit length is 8 x the length of every successful encoding.
   The other message-level statements (other parameter kinds, constant prefix,
   required/free) are correspondence + oracle only.  Known finding: condensed bit masks (see known_findings.json). *)
From Coq Require Import ZArith List Bool.
From OV Require Import Base.Bytes Base.Wire Generated Model.Str Model.Codec Proofs.BytesProofs Proofs.AtomicProofs Proofs.CodecProps Proofs.FlatProofs Proofs.FlatEncodeProofs Proofs.TreeProofs Proofs.TreeWireProofs.
Import ListNotations.
Open Scope Z_scope.

Theorem C08_atomic_cursor_partial : forall s v bl bt en hl s' raw,
  0 < bl -> 0 <= e_cur s -> 0 <= e_bit s -> bytes_ok (e_msg s) = true ->
  raw_of v bl bt en hl = Ok raw -> 0 <= raw < 2 ^ bl ->
  emplace_atomic s v bl bt en hl None = Ok s' ->
  e_cur s' = e_cur s + (bl + e_bit s + 7) / 8.
Proof.
  intros s v bl bt en hl s' raw H1 H2 H3 H4 H5 H6 H7.
  exact (proj1 (proj2 (emplace_then_extract s v bl bt en hl s' raw [] H1 H2 H3 H4 H5 H6 H7))).
Qed.
Print Assumptions C08_atomic_cursor_partial.

Theorem C08_static_length_of_standard_type : forall bt en hl bl mask,
  static_bits_dct (Std bt en hl bl mask) = Some bl.
Proof. reflexivity. Qed.
Print Assumptions C08_static_length_of_standard_type.

Theorem C08_flat_static_length : forall fl,
  (forall x, In x fl -> 0 < f_bl x) ->
  static_bits_msg (map mkp fl) = Some (8 * fold_right (fun x a => fbytes x + a) 0 fl).
Proof. exact flat_static_length. Qed.
Print Assumptions C08_flat_static_length.

Theorem C08_flat_length_is_static : forall fl vv msg w,
  (forall x, In x fl -> fits x (vv (fname x))) -> NoDup (map fname fl) ->
  encode_msg (map mkp fl) None (VDict (fvals vv (filter is_value fl))) = Ok (msg, w) ->
  static_bits_msg (map mkp fl) = Some (8 * blen msg).
Proof. exact flat_length_is_static. Qed.
Print Assumptions C08_flat_length_is_static.

(* ---------- required / free parameters of flat messages (Proofs/FlatEncodeProofs.v) ---------- *)
(* the parameters reported as required (filter is_required, what CodecWire returns) are exactly the VALUE
   parameters; a dictionary which lacks one of them is never accepted, whatever else it holds ... *)
Theorem C08_flat_required_needed : forall fl kv x,
  (forall y, In y fl -> fnf y) -> In x fl -> is_required (mkp x) = true -> lookup (fname x) kv = None ->
  encode_msg (map mkp fl) None (VDict kv) = Err ERej.
Proof. exact flat_required_needed. Qed.
Print Assumptions C08_flat_required_needed.

Theorem C08_flat_required_are_the_value_parameters : forall x, is_required (mkp x) = is_value x.
Proof. exact required_is_value. Qed.
Print Assumptions C08_flat_required_are_the_value_parameters.

(* ... and a dictionary which holds exactly the required ones (no constant) is accepted whenever the values fit:
   this is the encoding half of C01_flat_message_roundtrip, restated *)
Theorem C08_flat_required_suffice : forall fl vv,
  (forall x, In x fl -> fits x (vv (fname x))) -> NoDup (map fname fl) ->
  exists msg, encode_msg (map mkp fl) None (VDict (fvals vv (filter is_value fl))) = Ok (msg, false).
Proof. intros fl vv H ND. destruct (flat_roundtrip fl vv H ND) as (m & E & _). now exists m. Qed.
Print Assumptions C08_flat_required_suffice.

(* ---------- structures nested to any depth (Proofs/TreeWireProofs.v) ---------- *)
(* the static bit length reported for a message whose parameters are standard-length parameters or STRUCTUREs of
   such, recursively, is 8 x the bytes of its leaves ... *)
Theorem C08_nested_static_length : forall ts d,
  (forall t, In t ts -> (wdepth t <= d)%nat /\ tpos t) ->
  let ps := map w_p (map t_w ts) in
  (d + 2 <= fuel_of ps)%nat ->
  static_bits_msg ps = Some (8 * fold_right (fun t a => tbytes t + a) 0 ts).
Proof. exact tree_static_length. Qed.
Print Assumptions C08_nested_static_length.

(* ... and every encoding occupies exactly that many bits *)
Theorem C08_nested_length_is_static : forall ts d,
  (forall t, In t ts -> (wdepth t <= d)%nat /\ wwf t) ->
  NoDup (map (fun t => pname (w_p (t_w t))) ts) ->
  let ws := map t_w ts in
  let ps := map w_p ws in
  (3 * d + 3 <= fuel_of ps)%nat ->
  exists msg, encode_msg ps None (VDict (in_dict (map as_m ws))) = Ok (msg, false) /\
              static_bits_msg ps = Some (8 * blen msg).
Proof. exact tree_length_is_static. Qed.
Print Assumptions C08_nested_length_is_static.
