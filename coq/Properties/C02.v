(* C02 -- encoded PDUs are bit-exact with the ODX wire format.
   PROVED HERE (atomic layer, all bit lengths / positions / both orders): every
   bit of the written region is the specified one and every other bit keeps its
   value (C02_atomic_bits), reading returns the raw value (C02_atomic_read), the
   overlap flag is raised exactly when a used bit is claimed again (C02_overlap_flag).
   The composite statement (layout of whole parameter trees) is correspondence-only. *)
From Coq Require Import ZArith List Bool.
From OV Require Import Base.Bytes Base.Wire Generated Model.Str Model.Codec Proofs.BytesProofs Proofs.AtomicProofs Proofs.CodecProps Proofs.FlatProofs Proofs.TreeProofs Proofs.TreeWireProofs Proofs.FieldProofs Proofs.DynFieldProofs Proofs.EopFieldProofs Proofs.PadProofs Proofs.BStructProofs Proofs.MuxProofs Proofs.MuxSelProofs Proofs.BitFieldProofs.
Import ListNotations.
Open Scope Z_scope.

Theorem C02_atomic_bits_partial :
  forall (O : list Z) (raw bl bp : Z) (n : nat),
    bytes_ok O = true -> List.length O = n -> 0 < bl -> 0 <= bp ->
    bl + bp <= 8 * Z.of_nat n -> 0 <= raw < 2 ^ bl ->
    forall j k, (j < n)%nat -> 0 <= k < 8 ->
      let i := 8 * Z.of_nat (n - 1 - j) + k in
      Z.testbit (nth j (masked_write O (to_be n (raw * 2 ^ bp)) (to_be n ((2 ^ bl - 1) * 2 ^ bp))) 0) k =
      if (bp <=? i) && (i <? bp + bl) then Z.testbit raw (i - bp) else Z.testbit (nth j O 0) k.
Proof. intros O raw bl bp n H1 H2 H3 H4 H5 H6. exact (region_bits O raw bl bp n H2 H3 H4 H5). Qed.
Print Assumptions C02_atomic_bits_partial.

Theorem C02_atomic_read :
  forall (O : list Z) (raw bl bp : Z) (n : nat),
    bytes_ok O = true -> List.length O = n -> 0 < bl -> 0 <= bp ->
    bl + bp <= 8 * Z.of_nat n -> 0 <= raw < 2 ^ bl ->
    (be_int (masked_write O (to_be n (raw * 2 ^ bp)) (to_be n ((2 ^ bl - 1) * 2 ^ bp))) / 2 ^ bp) mod 2 ^ bl = raw.
Proof. exact region_read. Qed.
Print Assumptions C02_atomic_read.

Theorem C02_overlap_flag : forall U M,
  List.length U = List.length M -> bytes_ok U = true -> bytes_ok M = true ->
  (mask_clash U M = true <->
   exists j k, (j < List.length U)%nat /\ 0 <= k /\
               Z.testbit (nth j U 0) k = true /\ Z.testbit (nth j M 0) k = true).
Proof. exact clash_iff. Qed.
Print Assumptions C02_overlap_flag.

(* low-high byte order is the high-low layout of the reversed region *)
Theorem C02_byte_order : forall O C M,
  List.length O = List.length C -> List.length C = List.length M ->
  rev (masked_write O C M) = masked_write (rev O) (rev C) (rev M).
Proof. exact masked_write_rev. Qed.
Print Assumptions C02_byte_order.

(* message level: the PDU of a message which is a sequence of standard-length CODED-CONST / VALUE
   parameters with implicit positions is exactly the concatenation of the raw values, big endian
   (byte-swapped for little endian numeric objects), each zero-padded at the top to whole bytes,
   in parameter order; no overlap warning *)
Theorem C02_flat_wire_format : forall fl vv raws,
  Forall2 (fun x raw => sane vv x /\ 0 <= raw < 2 ^ f_bl x /\
                        raw_of (vv (fname x)) (f_bl x) (f_bt x) (f_en x) (f_hl x) = Ok raw /\
                        value_of_raw raw (f_bl x) (f_bt x) (f_en x) (f_hl x) = Ok (vv (fname x))) fl raws ->
  NoDup (map fname fl) ->
  encode_msg (map mkp fl) None (VDict (fvals vv (filter is_value fl))) =
  Ok (concat (map (fun p => wire_bytes (fst p) (snd p)) (combine fl raws)), false).
Proof. exact flat_wire_format. Qed.
Print Assumptions C02_flat_wire_format.

Theorem C02_wire_example :
  let fl := [mkF [115] 8 BUint None true BUint (Some (VInt 34)); mkF [112; 50] 12 BUint None false BUint None;
             mkF [112; 52] 8 BInt (Some Enc2C) true BInt None] in
  concat (map (fun p => wire_bytes (fst p) (snd p)) (combine fl [34; 2748; 254])) = [34; 188; 10; 254].
Proof. exact wire_example. Qed.
Print Assumptions C02_wire_example.

(* ---------- structures nested to any depth (Proofs/TreeWireProofs.v) ---------- *)
(* the PDU of a message whose parameters are standard-length CODED-CONST / VALUE parameters or STRUCTUREs of such,
   recursively, is the concatenation of the wire bytes of the leaves in document order (depth first): a structure
   contributes nothing of its own, nothing is inserted between or around structures, no overlap warning.
   (side condition: the model's fuel suffices for the nesting depth -- a computable inequality, see the example) *)
Theorem C02_nested_wire_format : forall ts d,
  (forall t, In t ts -> (wdepth t <= d)%nat /\ wwf t) ->
  NoDup (map (fun t => pname (w_p (t_w t))) ts) ->
  let ws := map t_w ts in
  let ps := map w_p ws in
  (3 * d + 3 <= fuel_of ps)%nat ->
  encode_msg ps None (VDict (in_dict (map as_m ws))) = Ok (concat (flat_map leaves ts), false).
Proof. exact tree_wire_format. Qed.
Print Assumptions C02_nested_wire_format.

(* a leaf given by its raw value is well-formed, with the bytes of C02_flat_wire_format *)
Theorem C02_raw_leaf : forall x vv raw,
  sane vv x -> 0 <= raw < 2 ^ f_bl x ->
  raw_of (vv (fname x)) (f_bl x) (f_bt x) (f_en x) (f_hl x) = Ok raw ->
  value_of_raw raw (f_bl x) (f_bt x) (f_en x) (f_hl x) = Ok (vv (fname x)) ->
  wwf (raw_leaf x vv raw).
Proof. exact raw_leaf_wf. Qed.
Print Assumptions C02_raw_leaf.

(* the premises are satisfiable: service id, a structure holding a value and a structure (a 12 bit little-endian
   value and a byte), a trailing value *)
Example C02_nested_example :
  let u8 nm := mkF nm 8 BUint None true BUint None in
  let vv (z : Z) := fun _ : name => VInt z in
  let ts := [raw_leaf (mkF [115] 8 BUint None true BUint (Some (VInt 34))) (vv 34) 34;
             WNode [111] [raw_leaf (u8 [97]) (vv 1) 1;
                          WNode [105] [raw_leaf (mkF [98] 12 BUint None false BUint None) (vv 2748) 2748;
                                       raw_leaf (u8 [99]) (vv 3) 3]];
             raw_leaf (u8 [122]) (vv 255) 255] in
  (forall t, In t ts -> (wdepth t <= 2)%nat /\ wwf t) /\
  NoDup (map (fun t => pname (w_p (t_w t))) ts) /\
  (3 * 2 + 3 <= fuel_of (map w_p (map t_w ts)))%nat /\
  concat (flat_map leaves ts) = [34; 1; 188; 10; 3; 255].
Proof. exact tree_wire_example. Qed.
Print Assumptions C02_nested_example.

(* ---------- lists of structures (Proofs/FieldProofs.v) ---------- *)
(* the PDU of a message of good members (leaves, structures, STATIC-FIELDs of structures, nested) is the
   concatenation of the member bytes; a field contributes the concatenation of its items' bytes, a structure the
   concatenation of its members' bytes (definitions field_rm / struct_rm); no overlap warning *)
Theorem C02_message_of_members_wire_format : forall k rs,
  (forall x, In x rs -> rgood k x) -> NoDup (map m_name (rms rs)) ->
  (k + 1 <= fuel_of (map m_p (rms rs)))%nat ->
  encode_msg (map m_p (rms rs)) None (VDict (in_dict (rms rs))) = Ok (concat (map r_w rs), false).
Proof. intros k rs Hg ND Hf. exact (proj1 (rmessage_roundtrip k rs Hg ND Hf)). Qed.
Print Assumptions C02_message_of_members_wire_format.

Theorem C02_field_bytes : forall nm ps isz items, r_w (field_rm nm ps isz items) = concat (map rbytes items).
Proof. reflexivity. Qed.
Print Assumptions C02_field_bytes.

(* ---------- messages which end in an END-OF-PDU-FIELD (Proofs/EopFieldProofs.v) ---------- *)
(* the PDU is the member bytes followed by the bytes of the items, in order, nothing between or behind them *)
Theorem C02_end_of_pdu_field_wire_format : forall k rs nm psi (items : list (list rmem)),
  (forall x, In x rs -> rgood k x) ->
  (forall it, In it items -> eitem_ok k psi it) ->
  let ms := rms rs ++ [eop_member nm psi items] in
  NoDup (map m_name ms) ->
  (k + 5 <= fuel_of (map m_p ms))%nat ->
  encode_msg (map m_p ms) None (VDict (in_dict ms)) = Ok (concat (map r_w rs) ++ concat (map rbytes items), false).
Proof. intros k rs nm psi items Hg Hit ms ND Hf. exact (proj1 (eop_message_roundtrip k rs nm psi items Hg Hit ND Hf)). Qed.
Print Assumptions C02_end_of_pdu_field_wire_format.

(* ---------- structures with a BYTE-SIZE (Proofs/BStructProofs.v) ---------- *)
(* such a structure contributes its members' bytes followed by zero bytes, the declared number of bytes in all *)
Theorem C02_byte_size_structure_bytes : forall nm rs b,
  r_w (bstruct_rm nm rs b) = rbytes rs ++ zeros (b - blen (rbytes rs)) /\
  (blen (rbytes rs) <= b -> blen (r_w (bstruct_rm nm rs b)) = b).
Proof. intros nm rs b. split; [reflexivity | apply bstruct_length]. Qed.
Print Assumptions C02_byte_size_structure_bytes.

(* ---------- multiplexers (Proofs/MuxProofs.v) ---------- *)
(* a multiplexer contributes the lower limit of the selected case as switch key -- zero-padded big-endian bytes,
   byte-swapped for a little-endian key -- followed by the bytes of the case's members (the premises under which these
   are the bytes the encoder writes are those of C01_multiplexer_member, whose second component says so) *)
Theorem C02_multiplexer_bytes : forall nm kbl hl cases dflt c rs,
  r_w (mux_rm nm kbl hl cases dflt c rs) =
  (let n := Z.to_nat (nbytes_of kbl 0) in if negb hl then rev (to_be n (mc_lo c)) else to_be n (mc_lo c)) ++ rbytes rs.
Proof. intros nm kbl hl cases dflt c rs. cbn [mux_rm r_w]. unfold key_bytes, wire_bytes, key_desc, fbytes. cbn [f_bl f_hl f_bt is_numeric].
       rewrite Bool.andb_true_r. reflexivity. Qed.
Print Assumptions C02_multiplexer_bytes.

(* for any way of selecting the case: the selected key, then the content (nothing for a case without content) *)
Theorem C02_multiplexer_selected_bytes : forall nm kbl hl cases dflt c spec cv key rs,
  r_w (mux_sel_rm nm kbl hl cases dflt c spec key rs) = key_bytes kbl hl key ++ rbytes rs /\
  r_w (mux_empty_rm nm kbl hl cases dflt c spec cv key) = key_bytes kbl hl key /\
  key_bytes kbl hl key = (let n := Z.to_nat (nbytes_of kbl 0) in if negb hl then rev (to_be n key) else to_be n key).
Proof. intros. split; [reflexivity|]. split; [reflexivity|]. unfold key_bytes, wire_bytes, key_desc, fbytes. cbn [f_bl f_hl f_bt is_numeric].
       rewrite Bool.andb_true_r. reflexivity. Qed.
Print Assumptions C02_multiplexer_selected_bytes.

(* ---------- bit fields (Proofs/BitFieldProofs.v) ---------- *)
(* the byte of a structure of bit fields is the OR -- with disjoint ranges: the sum -- of the values shifted to
   their bit positions, whatever the order in which the parameters are listed *)
Theorem C02_bit_field_byte : forall vv nm fs,
  r_w (packed_rm vv nm fs) = [fold_left (fun acc x => Z.lor acc (vv (b_name x) * 2 ^ b_pos x)) fs 0] /\
  (packed_ok vv fs -> pack vv fs = fold_left (fun acc x => acc + vv (b_name x) * 2 ^ b_pos x) fs 0).
Proof. intros vv nm fs. split; [reflexivity | apply pack_is_sum]. Qed.
Print Assumptions C02_bit_field_byte.
