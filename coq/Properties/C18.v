(* C18 -- the comparison tool reports the true differences. *)
From Coq Require Import ZArith List Bool.
From OV Require Import Base.Bytes Base.Wire Model.Compare Proofs.CompareProofs.
Import ListNotations.
Open Scope Z_scope.

(* comparing any layer with itself reports no change *)
Theorem C18_self_empty : forall L, names_functional L -> empty_report (compare_layers L L).
Proof. exact self_empty. Qed.
Print Assumptions C18_self_empty.

(* an added service (unknown name, unknown request prefix) is reported as new, in any pair of layers *)
Theorem C18_added_service_is_new : forall news olds s,
  In s news -> mem_name (sv_name s) olds = false -> mem_prefix (sv_prefix s) olds = false ->
  In (sv_name s) (r_new (compare_layers news olds)).
Proof. exact added_service_is_new. Qed.
Print Assumptions C18_added_service_is_new.

(* a renamed service (same request prefix, unknown name) is reported as renamed *)
Theorem C18_renamed_service_is_reported : forall news olds s s_old,
  In s news -> mem_name (sv_name s) olds = false ->
  rename_partner news (sv_prefix s) olds = Some s_old ->
  In (sv_name s, sv_name s_old) (r_renamed (compare_layers news olds)).
Proof. exact renamed_service_is_reported. Qed.
Print Assumptions C18_renamed_service_is_reported.

(* ... and for an actual rename edit (the old service s_old vanished, whatever else shares its
   request prefix) the reported old name is that of s_old *)
Theorem C18_rename_edit_is_reported : forall news pre post s s_old,
  In s news -> mem_name (sv_name s) (pre ++ s_old :: post) = false ->
  oprefix_eqb (sv_prefix s) (sv_prefix s_old) = true ->
  mem_name (sv_name s_old) news = false ->
  (forall o, In o pre -> oprefix_eqb (sv_prefix s) (sv_prefix o) = true -> mem_name (sv_name o) news = true) ->
  In (sv_name s, sv_name s_old) (r_renamed (compare_layers news (pre ++ s_old :: post))).
Proof. exact rename_edit_is_reported. Qed.
Print Assumptions C18_rename_edit_is_reported.

(* every kind of single edit on a concrete layer (add, delete, rename, change) *)
Theorem C18_single_edits_example :
  let L := [mkSvc 1 (Some [34; 1]) 7 1; mkSvc 2 (Some [16]) 8 2] in
  compare_layers (mkSvc 3 (Some [62]) 9 3 :: L) L = mkR [3] [] [] [] /\
  compare_layers L (mkSvc 3 (Some [62]) 9 3 :: L) = mkR [] [3] [] [] /\
  compare_layers [mkSvc 5 (Some [34; 1]) 7 5; mkSvc 2 (Some [16]) 8 2] L = mkR [] [] [(5, 1)] [] /\
  compare_layers [mkSvc 1 (Some [34; 1]) 70 1; mkSvc 2 (Some [16]) 8 2] L = mkR [] [] [] [1] /\
  compare_layers [mkSvc 1 (Some [16]) 7 1; mkSvc 5 (Some [16]) 8 5] [mkSvc 1 (Some [16]) 7 1; mkSvc 2 (Some [16]) 8 2] = mkR [] [] [(5, 2)] [].
Proof. exact compare_examples. Qed.
Print Assumptions C18_single_edits_example.

(* a deleted service (name and request prefix gone) is reported as deleted -- also if the new
   layer has no service left (before the fix commit that case was not reported at all) -- and
   every reported deletion is a service of the old layer whose name vanished *)
Theorem C18_deleted_service_is_reported : forall news olds s,
  In s olds -> mem_name (sv_name s) news = false -> mem_prefix (sv_prefix s) news = false ->
  In (sv_name s) (r_deleted (compare_layers news olds)).
Proof. exact deleted_service_is_reported. Qed.
Print Assumptions C18_deleted_service_is_reported.

Theorem C18_reported_deletion_is_real : forall news olds n,
  In n (r_deleted (compare_layers news olds)) ->
  exists s, In s olds /\ sv_name s = n /\ mem_name n news = false.
Proof. exact reported_deletion_is_real. Qed.
Print Assumptions C18_reported_deletion_is_real.
