(* C18 -- the comparison tool reports the true differences. *)
From Coq Require Import ZArith List Bool.
From OV Require Import Base.Bytes Base.Wire Model.Compare Proofs.CompareProofs Model.CompareParams Proofs.CompareParamsProofs.
Import ListNotations.
Open Scope Z_scope.

(* comparing any layer with itself reports no change *)
Theorem C18_self_empty : forall L, names_functional L -> empty_report (compare_layers L L).
Proof. exact self_empty. Qed.
Print Assumptions C18_self_empty.

(* an added service (unknown name, unknown request prefix) is reported as new, in any pair of layers *)
Theorem C18_added_service_is_new : forall news olds s,
  In s news -> mem_name (sv_name s) olds = false -> mem_prefix (sv_prefix s) olds = false ->
  In (sv_name s) (r_new (compare_layers news olds)).
Proof. exact added_service_is_new. Qed.
Print Assumptions C18_added_service_is_new.

(* a renamed service (same request prefix, unknown name) is reported as renamed *)
Theorem C18_renamed_service_is_reported : forall news olds s s_old,
  In s news -> mem_name (sv_name s) olds = false ->
  rename_partner news (sv_prefix s) olds = Some s_old ->
  In (sv_name s, sv_name s_old) (r_renamed (compare_layers news olds)).
Proof. exact renamed_service_is_reported. Qed.
Print Assumptions C18_renamed_service_is_reported.

(* ... and for an actual rename edit (the old service s_old vanished, whatever else shares its
   request prefix) the reported old name is that of s_old *)
Theorem C18_rename_edit_is_reported : forall news pre post s s_old,
  In s news -> mem_name (sv_name s) (pre ++ s_old :: post) = false ->
  oprefix_eqb (sv_prefix s) (sv_prefix s_old) = true ->
  mem_name (sv_name s_old) news = false ->
  (forall o, In o pre -> oprefix_eqb (sv_prefix s) (sv_prefix o) = true -> mem_name (sv_name o) news = true) ->
  In (sv_name s, sv_name s_old) (r_renamed (compare_layers news (pre ++ s_old :: post))).
Proof. exact rename_edit_is_reported. Qed.
Print Assumptions C18_rename_edit_is_reported.

(* every kind of single edit on a concrete layer (add, delete, rename, change) *)
Theorem C18_single_edits_example :
  let L := [mkSvc 1 (Some [34; 1]) 7 1; mkSvc 2 (Some [16]) 8 2] in
  compare_layers (mkSvc 3 (Some [62]) 9 3 :: L) L = mkR [3] [] [] [] /\
  compare_layers L (mkSvc 3 (Some [62]) 9 3 :: L) = mkR [] [3] [] [] /\
  compare_layers [mkSvc 5 (Some [34; 1]) 7 5; mkSvc 2 (Some [16]) 8 2] L = mkR [] [] [(5, 1)] [] /\
  compare_layers [mkSvc 1 (Some [34; 1]) 70 1; mkSvc 2 (Some [16]) 8 2] L = mkR [] [] [] [1] /\
  compare_layers [mkSvc 1 (Some [16]) 7 1; mkSvc 5 (Some [16]) 8 5] [mkSvc 1 (Some [16]) 7 1; mkSvc 2 (Some [16]) 8 2] = mkR [] [] [(5, 2)] [].
Proof. exact compare_examples. Qed.
Print Assumptions C18_single_edits_example.

(* a deleted service (name and request prefix gone) is reported as deleted -- also if the new
   layer has no service left (before the fix commit that case was not reported at all) -- and
   every reported deletion is a service of the old layer whose name vanished *)
Theorem C18_deleted_service_is_reported : forall news olds s,
  In s olds -> mem_name (sv_name s) news = false -> mem_prefix (sv_prefix s) news = false ->
  In (sv_name s) (r_deleted (compare_layers news olds)).
Proof. exact deleted_service_is_reported. Qed.
Print Assumptions C18_deleted_service_is_reported.

Theorem C18_reported_deletion_is_real : forall news olds n,
  In n (r_deleted (compare_layers news olds)) ->
  exists s, In s olds /\ sv_name s = n /\ mem_name n news = false.
Proof. exact reported_deletion_is_real. Qed.
Print Assumptions C18_reported_deletion_is_real.

(* ---------- attribute level: Comparison.compare_parameters (Model/CompareParams.v) ---------- *)
(* comparing a parameter (a message) with itself reports nothing *)
Theorem C18_parameter_self_empty : forall p, compare_params p p = [].
Proof. exact compare_self. Qed.
Print Assumptions C18_parameter_self_empty.

Theorem C18_message_self_empty : forall l, compare_message l l = Some [].
Proof. exact compare_message_self. Qed.
Print Assumptions C18_message_self_empty.

(* name, byte position, bit length, semantic and parameter type: each is reported exactly when it differs *)
Theorem C18_basic_properties_reported_iff_different : forall p1 p2,
  (In L_name (compare_params p1 p2) <-> q_name p1 <> q_name p2) /\
  (In L_pos (compare_params p1 p2) <-> q_pos p1 <> q_pos p2) /\
  (In L_bits (compare_params p1 p2) <-> q_bits p1 <> q_bits p2) /\
  (In L_sem (compare_params p1 p2) <-> q_sem p1 <> q_sem p2) /\
  (In L_type (compare_params p1 p2) <-> q_type p1 <> q_type p2).
Proof. exact reported_iff_differs. Qed.
Print Assumptions C18_basic_properties_reported_iff_different.

(* the bit position (compared since the fix commit) is reported exactly when it differs *)
Theorem C18_bit_position_reported_iff_different : forall p1 p2,
  In L_bitpos (compare_params p1 p2) <-> q_bitpos p1 <> q_bitpos p2.
Proof. exact bitpos_reported_iff_differs. Qed.
Print Assumptions C18_bit_position_reported_iff_different.

(* the default value of a VALUE parameter is reported exactly when it differs, a default which appears or disappears
   included (since the fix commit) *)
Theorem C18_default_value_reported_iff_different : forall a b,
  In L_default (cmp_extra (XValue a) (XValue b)) <-> a <> b.
Proof. exact default_reported_iff_differs. Qed.
Print Assumptions C18_default_value_reported_iff_different.

(* a data object edited in place behind an unchanged reference is reported ("Linked DOP object") exactly when the
   objects or their units differ; apart from constant / default values nothing else is reported for equal objects *)
Theorem C18_linked_dop_reported_iff_different : forall n t po b s bp i1 n1 u1 p1 e1 i2 n2 u2 p2 e2,
  let q1 := mkQ n t po b s (QDop i1 n1 u1 p1 e1) bp in
  let q2 := mkQ n t po b s (QDop i2 n2 u2 p2 e2) bp in
  (In L_dop (compare_params q1 q2) <-> i1 <> i2 \/ unit_same u1 u2 = false) /\
  (forall x, In x (compare_params q1 q2) -> x = L_const \/ x = L_default \/ i1 <> i2 \/ unit_same u1 u2 = false).
Proof. exact dop_reported_iff_differs. Qed.
Print Assumptions C18_linked_dop_reported_iff_different.

(* a unit modified in place behind unchanged references is reported (the behaviour before the fix commit --
   the unit was only looked at when the DOP objects themselves differed -- is the refutation below) *)
Theorem C18_unit_edit_reported : forall n t po b s bp i nm a a' p e,
  u_id a <> u_id a' ->
  In L_dop (compare_params (mkQ n t po b s (QDop i nm (Some a) p e) bp) (mkQ n t po b s (QDop i nm (Some a') p e) bp)).
Proof. exact unit_edit_reported. Qed.
Print Assumptions C18_unit_edit_reported.

Theorem C18_coded_constant_reported_iff_different : forall n t po b s bp d1 v1 d2 v2,
  let q1 := mkQ n t po b s (QCoded d1 v1) bp in
  let q2 := mkQ n t po b s (QCoded d2 v2) bp in
  (In L_dt (compare_params q1 q2) <-> d1 <> d2) /\ (In L_value (compare_params q1 q2) <-> v1 <> v2).
Proof. exact coded_reported_iff_differs. Qed.
Print Assumptions C18_coded_constant_reported_iff_different.

(* an empty report means agreement on everything the tool looks at *)
Theorem C18_nothing_reported_means_equal : forall p1 p2,
  compare_params p1 p2 = [] ->
  q_name p1 = q_name p2 /\ q_pos p1 = q_pos p2 /\ q_bits p1 = q_bits p2 /\ q_sem p1 = q_sem p2 /\ q_type p1 = q_type p2 /\
  q_bitpos p1 = q_bitpos p2 /\ cmp_kind (q_kind p1) (q_kind p2) = [].
Proof. exact nothing_reported. Qed.
Print Assumptions C18_nothing_reported_means_equal.

Example C18_parameter_example :
  let dop i := QDop i 5 None (Some 2) (XValue None) in
  compare_params (mkQ 1 7 (Some 2) (Some 16) None (dop 11) None) (mkQ 1 7 (Some 2) (Some 8) None (dop 12) None) = [L_bits; L_dop] /\
  compare_params (mkQ 1 7 (Some 2) (Some 8) None (QCoded 3 34) (Some 4)) (mkQ 1 7 None (Some 8) (Some 9) (QCoded 3 35) None)
    = [L_pos; L_sem; L_bitpos; L_value].
Proof. exact compare_example. Qed.
Print Assumptions C18_parameter_example.
