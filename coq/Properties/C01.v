(* C01 -- encoding a message and decoding it returns the values that were encoded.
   PROVED HERE: the atomic layer, for every bit length > 0, every bit position,
   both byte orders, any previous message content: what emplace_atomic_value
   writes, extract_atomic_value reads back (C01_atomic_roundtrip), and for each
   base type the raw value determines the internal value (C01_*_values).
   NOT PROVED (correspondence + oracle only): the composite statement
   C01_roundtrip over whole parameter trees (see DESIGN.md, "partial"). *)
From Coq Require Import ZArith List Bool.
From OV Require Import Base.Bytes Base.Wire Generated Model.Str Model.Codec Proofs.BytesProofs Proofs.AtomicProofs Proofs.CodecProps.
Import ListNotations.
Open Scope Z_scope.

Theorem C01_atomic_roundtrip_partial :
  forall s v bl bt en hl s' raw lk,
    0 < bl -> 0 <= e_cur s -> 0 <= e_bit s -> bytes_ok (e_msg s) = true ->
    raw_of v bl bt en hl = Ok raw -> 0 <= raw < 2 ^ bl ->
    emplace_atomic s v bl bt en hl None = Ok s' ->
    extract_atomic (dview s' (e_cur s) (e_bit s) lk) bl bt en hl =
      (do v' <- value_of_raw raw bl bt en hl; Ok (v', mkD (e_msg s') 0 (e_cur s') 0 lk))
    /\ e_cur s' = e_cur s + nbytes_of bl (e_bit s) /\ bytes_ok (e_msg s') = true.
Proof. exact emplace_then_extract. Qed.
Print Assumptions C01_atomic_roundtrip_partial.

Theorem C01_signed_values : forall z bl en hl raw,
  0 < bl -> (en = None \/ en = Some Enc2C \/ en = Some Enc1C \/ en = Some EncSM) ->
  raw_of (VInt z) bl BInt en hl = Ok raw ->
  0 <= raw < 2 ^ bl /\ value_of_raw raw bl BInt en hl = Ok (VInt z).
Proof. exact int_raw_roundtrip. Qed.
Print Assumptions C01_signed_values.

Theorem C01_unsigned_values : forall z bl en hl raw,
  0 <= bl -> (en = None \/ en = Some EncNONE) ->
  raw_of (VInt z) bl BUint en hl = Ok raw ->
  0 <= raw < 2 ^ bl /\ value_of_raw raw bl BUint en hl = Ok (VInt z).
Proof. exact uint_raw_roundtrip. Qed.
Print Assumptions C01_unsigned_values.

Theorem C01_bytefield_values : forall b bl en hl raw,
  bytes_ok b = true -> raw_of (VBytes b) bl BBytes en hl = Ok raw ->
  0 <= raw < 2 ^ bl /\ value_of_raw raw bl BBytes en hl = Ok (VBytes b).
Proof. exact bytes_raw_roundtrip. Qed.
Print Assumptions C01_bytefield_values.

Theorem C01_latin1_string_values : forall s bl hl raw,
  raw_of (VStr s) bl BAscii None hl = Ok raw ->
  0 <= raw < 2 ^ bl /\ value_of_raw raw bl BAscii None hl = Ok (VStr s).
Proof. exact latin1_raw_roundtrip. Qed.
Print Assumptions C01_latin1_string_values.

Theorem C01_nonvacuous :
  (do s <- emplace_atomic (mkE [255; 255; 255] [0; 0; 0] 0 1 3 true [] [] None false)
                          (VInt 2748) 12 BUint None true None; Ok (e_msg s, e_cur s))
  = Ok ([255; 213; 231], 3)
  /\ (do s <- emplace_atomic (mkE [] [] 0 0 3 true [] [] None false)
                             (VInt 2748) 12 BUint None false None; Ok (e_msg s, e_cur s))
  = Ok ([224; 85], 2).
Proof. exact emplace_example. Qed.
