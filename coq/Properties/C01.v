(* C01 -- encoding a message and decoding it returns the values that were encoded.
   PROVED HERE: the atomic layer, for every bit length > 0, every bit position,
   both byte orders, any previous message content: what emplace_atomic_value
   writes, extract_atomic_value reads back (C01_atomic_roundtrip), and for each
   base type the raw value determines the internal value (C01_*_values).
   PROVED AT MESSAGE LEVEL (C01_flat_message_roundtrip): for every message which is a
   sequence of CODED-CONST / VALUE parameters with implicit positions over STANDARD-LENGTH types
   (any base type / encoding / byte order / bit length, no bit mask, IDENTICAL compu
   method), any number of parameters: Request.encode succeeds without overlap warning
   and Request.decode of the result returns exactly the encoded values -- stated about
   the model's real entry points encode_msg / decode_msg.
   ... AND FOR NESTED STRUCTURES (C01_nested_message_roundtrip): the same for parameter trees
   in which a VALUE parameter may be a STRUCTURE of such parameters, to any nesting depth
   (side condition: the model's fuel suffices, a computable inequality), with PHYS-CONST
   parameters and LEADING-LENGTH byte fields as further leaf kinds.
   NOT PROVED (correspondence + oracle only): fields, dynamic-length types, explicit or bit
   positions, BYTE-SIZE, length keys (see DESIGN.md, "partial"). *)
From Coq Require Import ZArith List Bool.
From OV Require Import Base.Bytes Base.Wire Generated Model.Str Model.Codec Proofs.BytesProofs Proofs.AtomicProofs Proofs.CodecProps Proofs.FlatProofs Proofs.TreeProofs Proofs.TreeWireProofs Proofs.FieldProofs Proofs.DynFieldProofs Proofs.PadProofs Proofs.EopFieldProofs Proofs.BStructProofs Proofs.MuxProofs Proofs.MuxSelProofs Proofs.LinearLeafProofs Proofs.ReservedProofs Proofs.BitFieldProofs Proofs.LeafKindsProofs.
Import ListNotations.
Open Scope Z_scope.

Theorem C01_atomic_roundtrip_partial :
  forall s v bl bt en hl s' raw lk,
    0 < bl -> 0 <= e_cur s -> 0 <= e_bit s -> bytes_ok (e_msg s) = true ->
    raw_of v bl bt en hl = Ok raw -> 0 <= raw < 2 ^ bl ->
    emplace_atomic s v bl bt en hl None = Ok s' ->
    extract_atomic (dview s' (e_cur s) (e_bit s) lk) bl bt en hl =
      (do v' <- value_of_raw raw bl bt en hl; Ok (v', mkD (e_msg s') 0 (e_cur s') 0 lk))
    /\ e_cur s' = e_cur s + nbytes_of bl (e_bit s) /\ bytes_ok (e_msg s') = true.
Proof. exact emplace_then_extract. Qed.
Print Assumptions C01_atomic_roundtrip_partial.

Theorem C01_signed_values : forall z bl en hl raw,
  0 < bl -> (en = None \/ en = Some Enc2C \/ en = Some Enc1C \/ en = Some EncSM) ->
  raw_of (VInt z) bl BInt en hl = Ok raw ->
  0 <= raw < 2 ^ bl /\ value_of_raw raw bl BInt en hl = Ok (VInt z).
Proof. exact int_raw_roundtrip. Qed.
Print Assumptions C01_signed_values.

Theorem C01_unsigned_values : forall z bl en hl raw,
  0 <= bl -> (en = None \/ en = Some EncNONE) ->
  raw_of (VInt z) bl BUint en hl = Ok raw ->
  0 <= raw < 2 ^ bl /\ value_of_raw raw bl BUint en hl = Ok (VInt z).
Proof. exact uint_raw_roundtrip. Qed.
Print Assumptions C01_unsigned_values.

Theorem C01_bytefield_values : forall b bl en hl raw,
  bytes_ok b = true -> raw_of (VBytes b) bl BBytes en hl = Ok raw ->
  0 <= raw < 2 ^ bl /\ value_of_raw raw bl BBytes en hl = Ok (VBytes b).
Proof. exact bytes_raw_roundtrip. Qed.
Print Assumptions C01_bytefield_values.

Theorem C01_latin1_string_values : forall s bl hl raw,
  raw_of (VStr s) bl BAscii None hl = Ok raw ->
  0 <= raw < 2 ^ bl /\ value_of_raw raw bl BAscii None hl = Ok (VStr s).
Proof. exact latin1_raw_roundtrip. Qed.
Print Assumptions C01_latin1_string_values.

Theorem C01_nonvacuous :
  (do s <- emplace_atomic (mkE [255; 255; 255] [0; 0; 0] 0 1 3 true [] [] None false)
                          (VInt 2748) 12 BUint None true None; Ok (e_msg s, e_cur s))
  = Ok ([255; 213; 231], 3)
  /\ (do s <- emplace_atomic (mkE [] [] 0 0 3 true [] [] None false)
                             (VInt 2748) 12 BUint None false None; Ok (e_msg s, e_cur s))
  = Ok ([224; 85], 2).
Proof. exact emplace_example. Qed.

(* message level: any number of sequential standard-length CODED-CONST / VALUE parameters; the
   caller passes the VALUE parameters, the decoder returns all parameters *)
Theorem C01_flat_message_roundtrip : forall fl vv,
  (forall x, In x fl -> fits x (vv (fname x))) -> NoDup (map fname fl) ->
  exists msg,
    encode_msg (map mkp fl) None (VDict (fvals vv (filter is_value fl))) = Ok (msg, false) /\
    decode_msg (map mkp fl) msg = Ok (VDict (fvals vv fl)) /\
    blen msg = fold_right (fun x a => fbytes x + a) 0 fl.
Proof. exact flat_roundtrip. Qed.
Print Assumptions C01_flat_message_roundtrip.

(* the hypothesis is satisfiable: unsigned integers in range, signed integers raw_of accepts,
   unsigned constants *)
Theorem C01_fits_uint : forall nm bl hl z,
  0 < bl <= 64 -> 0 <= z < 2 ^ bl -> fits (mkF nm bl BUint None hl BUint None) (VInt z).
Proof. exact fits_uint. Qed.
Print Assumptions C01_fits_uint.

Theorem C01_fits_int : forall nm bl en hl z raw,
  0 < bl <= 64 -> (en = None \/ en = Some Enc2C \/ en = Some Enc1C \/ en = Some EncSM) ->
  raw_of (VInt z) bl BInt en hl = Ok raw -> fits (mkF nm bl BInt en hl BInt None) (VInt z).
Proof. exact fits_int. Qed.
Print Assumptions C01_fits_int.

Theorem C01_fits_const_uint : forall nm bl hl z,
  0 < bl <= 64 -> 0 <= z < 2 ^ bl -> fits (mkF nm bl BUint None hl BUint (Some (VInt z))) (VInt z).
Proof. exact fits_const_uint. Qed.
Print Assumptions C01_fits_const_uint.

Theorem C01_flat_example :
  let fl := [mkF [115] 8 BUint None true BUint (Some (VInt 34));
             mkF [112; 50] 12 BUint None false BUint None;
             mkF [112; 51] 64 BUint None true BUint None; mkF [112; 52] 8 BInt (Some Enc2C) true BInt None] in
  let vv := fun nm => if bytes_eqb nm [115] then VInt 34 else if bytes_eqb nm [112; 50] then VInt 2748
                      else if bytes_eqb nm [112; 51] then VInt (2 ^ 64 - 1) else VInt (-2) in
  encode_msg (map mkp fl) None (VDict (fvals vv (filter is_value fl))) =
    Ok ([34; 188; 10; 255; 255; 255; 255; 255; 255; 255; 255; 254], false) /\
  decode_msg (map mkp fl) [34; 188; 10; 255; 255; 255; 255; 255; 255; 255; 255; 254] = Ok (VDict (fvals vv fl)) /\
  static_bits_msg (map mkp fl) = Some 96.
Proof. exact flat_example. Qed.
Print Assumptions C01_flat_example.

(* message level with nesting: every parameter is a standard-length CODED-CONST / VALUE parameter or
   a STRUCTURE of such parameters, recursively; the caller passes nested dictionaries of the VALUE
   parameters (in_dict), the decoder returns nested dictionaries of all parameters (out_dict) *)
Theorem C01_nested_message_roundtrip : forall ts d,
  (forall t, In t ts -> (depth t <= d)%nat /\ wf t) ->
  NoDup (map (fun t => m_name (t_member t)) ts) ->
  let ms := map t_member ts in
  let ps := map m_p ms in
  (3 * d + 3 <= fuel_of ps)%nat ->
  exists msg,
    encode_msg ps None (VDict (in_dict ms)) = Ok (msg, false) /\
    decode_msg ps msg = Ok (VDict (out_dict ms)).
Proof. exact tree_message_roundtrip. Qed.
Print Assumptions C01_nested_message_roundtrip.

Theorem C01_nested_example :
  let u8 nm := mkF nm 8 BUint None true BUint None in
  let ts := [FLeaf (mkF [115] 8 BUint None true BUint (Some (VInt 34))) (VInt 34);
             FNode [111] [FLeaf (u8 [97]) (VInt 1);
                          FNode [105] [FLeaf (mkF [98] 12 BUint None false BUint None) (VInt 2748); FLeaf (u8 [99]) (VInt 3)]];
             FLeaf (u8 [122]) (VInt 255)] in
  let ms := map t_member ts in
  let ps := map m_p ms in
  encode_msg ps None (VDict (in_dict ms)) = Ok ([34; 1; 188; 10; 3; 255], false) /\
  decode_msg ps [34; 1; 188; 10; 3; 255] = Ok (VDict (out_dict ms)) /\
  (3 * 2 + 3 <= fuel_of ps)%nat.
Proof. exact tree_example. Qed.
Print Assumptions C01_nested_example.

(* further kinds of parameters which may occur as leaves (FLeafM) of such messages: the tree theorem
   only needs that the parameter appends its encoding and reads it back *)
Theorem C01_physconst_leaf : forall x cv,
  f_const x = None -> fits x cv -> appends_ge 2 2 (physconst_param x cv) None cv.
Proof. exact physconst_appends. Qed.
Print Assumptions C01_physconst_leaf.

(* a byte field with LEADING-LENGTH-INFO-TYPE (a dynamic-length type), the empty field included *)
Theorem C01_leading_length_leaf : forall nm bl hl b,
  0 < bl <= 64 -> bytes_ok b = true -> blen b < 2 ^ bl ->
  appends_ge 2 2 (leading_param nm bl hl) (Some (VBytes b)) (VBytes b).
Proof. exact leading_appends. Qed.
Print Assumptions C01_leading_length_leaf.

Theorem C01_nested_example2 :
  let u8 nm := mkF nm 8 BUint None true BUint None in
  let ts := [FLeaf (mkF [115] 8 BUint None true BUint (Some (VInt 34))) (VInt 34);
             FLeafM (mkM (physconst_param (u8 [107]) (VInt 7)) None (VInt 7));
             FNode [111] [FLeaf (u8 [97]) (VInt 1);
                          FLeafM (mkM (leading_param [108] 8 true) (Some (VBytes [170; 187])) (VBytes [170; 187]))];
             FLeafM (mkM (leading_param [101] 16 false) (Some (VBytes [])) (VBytes []))] in
  let ms := map t_member ts in
  let ps := map m_p ms in
  encode_msg ps None (VDict (in_dict ms)) = Ok ([34; 7; 1; 2; 170; 187; 0; 0], false) /\
  decode_msg ps [34; 7; 1; 2; 170; 187; 0; 0] = Ok (VDict (out_dict ms)).
Proof. exact tree_example2. Qed.
Print Assumptions C01_nested_example2.

(* ---------- lists of structures: STATIC-FIELD (Proofs/FieldProofs.v) ---------- *)
(* A "good member" (rgood k) is a parameter known to round-trip with known bytes, given fuel k. Leaves,
   structures of good members and STATIC-FIELDs whose items are structures of good members filling the item size
   exactly are good members -- so fields may hold structures which hold fields, to any depth -- and a message made
   of good members round-trips with exactly the concatenated bytes. *)
Theorem C01_leaf_member : forall x vv w, sane vv x -> canon vv x w -> rgood 2 (leaf_rm x vv w).
Proof. exact leaf_rgood. Qed.
Print Assumptions C01_leaf_member.

Theorem C01_structure_member : forall k nm rs,
  (forall x, In x rs -> rgood k x) -> NoDup (map m_name (rms rs)) -> rgood (3 + k) (struct_rm nm rs).
Proof. exact struct_rgood. Qed.
Print Assumptions C01_structure_member.

Theorem C01_static_field_member : forall k nm ps isz items,
  (forall rs, In rs items -> item_ok k ps isz rs) -> rgood (4 + k) (field_rm nm ps isz items).
Proof. exact field_rgood. Qed.
Print Assumptions C01_static_field_member.

Theorem C01_message_of_members_roundtrip : forall k rs,
  (forall x, In x rs -> rgood k x) -> NoDup (map m_name (rms rs)) ->
  let ps := map m_p (rms rs) in
  (k + 1 <= fuel_of ps)%nat ->
  encode_msg ps None (VDict (in_dict (rms rs))) = Ok (rbytes rs, false) /\
  decode_msg ps (rbytes rs) = Ok (VDict (out_dict (rms rs))).
Proof. exact rmessage_roundtrip. Qed.
Print Assumptions C01_message_of_members_roundtrip.

(* the premises are satisfiable: service id, a STATIC-FIELD of three items {a: 8 bit, b: 16 bit little endian}, a byte *)
Example C01_field_premises :
  let u8 nm := mkF nm 8 BUint None true BUint None in
  let u16le nm := mkF nm 16 BUint None false BUint None in
  let vv (z : Z) := fun _ : name => VInt z in
  let item (a b : Z) := [leaf_rm (u8 [97]) (vv a) (wire_bytes (u8 [97]) a); leaf_rm (u16le [98]) (vv b) (wire_bytes (u16le [98]) b)] in
  let items := [item 1 258; item 2 772; item 255 65535] in
  let ps_item := map m_p (rms (item 0 0)) in
  let rs := [leaf_rm (mkF [115] 8 BUint None true BUint (Some (VInt 34))) (vv 34) (wire_bytes (mkF [115] 8 BUint None true BUint (Some (VInt 34))) 34);
             field_rm [102] ps_item 3 items;
             leaf_rm (u8 [122]) (vv 9) (wire_bytes (u8 [122]) 9)] in
  (forall x, In x rs -> rgood 6 x) /\ NoDup (map m_name (rms rs)) /\ (6 + 1 <= fuel_of (map m_p (rms rs)))%nat.
Proof. exact field_premises. Qed.
Print Assumptions C01_field_premises.

Example C01_field_example :
  let u8 nm := mkF nm 8 BUint None true BUint None in
  let u16le nm := mkF nm 16 BUint None false BUint None in
  let vv (z : Z) := fun _ : name => VInt z in
  let item (a b : Z) := [leaf_rm (u8 [97]) (vv a) (wire_bytes (u8 [97]) a); leaf_rm (u16le [98]) (vv b) (wire_bytes (u16le [98]) b)] in
  let items := [item 1 258; item 2 772; item 255 65535] in
  let ps_item := map m_p (rms (item 0 0)) in
  let rs := [leaf_rm (mkF [115] 8 BUint None true BUint (Some (VInt 34))) (vv 34) [34];
             field_rm [102] ps_item 3 items;
             leaf_rm (u8 [122]) (vv 9) [9]] in
  rbytes rs = [34; 1; 2; 1; 2; 4; 3; 255; 255; 255; 9] /\
  encode_msg (map m_p (rms rs)) None (VDict (in_dict (rms rs))) = Ok (rbytes rs, false) /\
  decode_msg (map m_p (rms rs)) (rbytes rs) = Ok (VDict (out_dict (rms rs))).
Proof. exact field_example. Qed.
Print Assumptions C01_field_example.

(* ---------- counted lists of structures: DYNAMIC-LENGTH-FIELD (Proofs/DynFieldProofs.v) ---------- *)
(* an item count of bl bits followed by that many items, each a structure of good members of any sizes *)
Theorem C01_dynamic_length_field_member : forall k nm ps bl hl items,
  0 < bl <= 64 -> zlen items < 2 ^ bl -> (forall rs, In rs items -> ditem_ok k ps rs) ->
  rgood (4 + k) (dyn_rm nm ps bl hl items).
Proof. exact dyn_rgood. Qed.
Print Assumptions C01_dynamic_length_field_member.

(* premises satisfiable: service id, a DYNAMIC-LENGTH-FIELD of items {a: 8 bit, n: STATIC-FIELD of two 16 bit values}, a byte *)
Example C01_dynamic_field_premises :
  let u8 nm := mkF nm 8 BUint None true BUint None in
  let u16 nm := mkF nm 16 BUint None true BUint None in
  let vv (z : Z) := fun _ : name => VInt z in
  let inner (x : Z) := [leaf_rm (u16 [118]) (vv x) (wire_bytes (u16 [118]) x)] in
  let ps_inner := map m_p (rms (inner 0)) in
  let item (a x y : Z) := [leaf_rm (u8 [97]) (vv a) (wire_bytes (u8 [97]) a);
                           field_rm [110] ps_inner 2 [inner x; inner y]] in
  let ps_item := map m_p (rms (item 0 0 0)) in
  let rs := [leaf_rm (mkF [115] 8 BUint None true BUint (Some (VInt 89))) (vv 89) (wire_bytes (mkF [115] 8 BUint None true BUint (Some (VInt 89))) 89);
             dyn_rm [102] ps_item 8 true [item 1 258 772; item 2 1 65535];
             leaf_rm (u8 [122]) (vv 9) (wire_bytes (u8 [122]) 9)] in
  (forall x, In x rs -> rgood 10 x) /\ NoDup (map m_name (rms rs)) /\ (10 + 1 <= fuel_of (map m_p (rms rs)))%nat.
Proof. exact dyn_premises. Qed.
Print Assumptions C01_dynamic_field_premises.

Example C01_dynamic_field_example :
  let u8 nm := mkF nm 8 BUint None true BUint None in
  let u16 nm := mkF nm 16 BUint None true BUint None in
  let vv (z : Z) := fun _ : name => VInt z in
  let inner (x : Z) := [leaf_rm (u16 [118]) (vv x) (wire_bytes (u16 [118]) x)] in
  let ps_inner := map m_p (rms (inner 0)) in
  let item (a x y : Z) := [leaf_rm (u8 [97]) (vv a) (wire_bytes (u8 [97]) a);
                           field_rm [110] ps_inner 2 [inner x; inner y]] in
  let ps_item := map m_p (rms (item 0 0 0)) in
  let rs := [leaf_rm (mkF [115] 8 BUint None true BUint (Some (VInt 89))) (vv 89) [89];
             dyn_rm [102] ps_item 8 true [item 1 258 772; item 2 1 65535];
             leaf_rm (u8 [122]) (vv 9) [9]] in
  rbytes rs = [89; 2; 1; 1; 2; 3; 4; 2; 0; 1; 255; 255; 9] /\
  encode_msg (map m_p (rms rs)) None (VDict (in_dict (rms rs))) = Ok (rbytes rs, false) /\
  decode_msg (map m_p (rms rs)) (rbytes rs) = Ok (VDict (out_dict (rms rs))).
Proof. exact dyn_example. Qed.
Print Assumptions C01_dynamic_field_example.

(* ---------- STATIC-FIELD items shorter than ITEM-BYTE-SIZE are padded with zero bytes (Proofs/PadProofs.v) ---------- *)
Theorem C01_padded_static_field_member : forall k nm ps isz items,
  (forall rs, In rs items -> pitem_ok k ps isz rs) -> rgood (4 + k) (pfield_rm nm ps isz items).
Proof. exact pfield_rgood. Qed.
Print Assumptions C01_padded_static_field_member.

Example C01_padded_field_example :
  let u8 nm := mkF nm 8 BUint None true BUint None in
  let vv (z : Z) := fun _ : name => VInt z in
  let item (a : Z) := [leaf_rm (u8 [97]) (vv a) (wire_bytes (u8 [97]) a)] in
  let ps_item := map m_p (rms (item 0)) in
  let rs := [leaf_rm (mkF [115] 8 BUint None true BUint (Some (VInt 34))) (vv 34) [34];
             pfield_rm [102] ps_item 3 [item 7; item 8];
             leaf_rm (u8 [122]) (vv 9) [9]] in
  rbytes rs = [34; 7; 0; 0; 8; 0; 0; 9] /\
  encode_msg (map m_p (rms rs)) None (VDict (in_dict (rms rs))) = Ok (rbytes rs, false) /\
  decode_msg (map m_p (rms rs)) (rbytes rs) = Ok (VDict (out_dict (rms rs))).
Proof. exact padded_example. Qed.
Print Assumptions C01_padded_field_example.

(* ---------- messages which end in an END-OF-PDU-FIELD (Proofs/EopFieldProofs.v) ---------- *)
(* good members followed by a list of structures which extends to the end of the PDU: for any number of items (none
   included), each a structure of good members which occupies at least one byte, the message encodes to the member
   bytes followed by the item bytes, and that PDU decodes to the given values *)
Theorem C01_message_ending_in_end_of_pdu_field : forall k rs nm psi (items : list (list rmem)),
  (forall x, In x rs -> rgood k x) ->
  (forall it, In it items -> eitem_ok k psi it) ->
  let ms := rms rs ++ [eop_member nm psi items] in
  NoDup (map m_name ms) ->
  let ps := map m_p ms in
  (k + 5 <= fuel_of ps)%nat ->
  let pdu := rbytes rs ++ concat (map rbytes items) in
  encode_msg ps None (VDict (in_dict ms)) = Ok (pdu, false) /\
  decode_msg ps pdu = Ok (VDict (out_dict ms)).
Proof. exact eop_message_roundtrip. Qed.
Print Assumptions C01_message_ending_in_end_of_pdu_field.

Example C01_end_of_pdu_premises :
  let u8 nm := mkF nm 8 BUint None true BUint None in
  let u16le nm := mkF nm 16 BUint None false BUint None in
  let vv (z : Z) := fun _ : name => VInt z in
  let item (a b : Z) := [leaf_rm (u8 [97]) (vv a) (wire_bytes (u8 [97]) a); leaf_rm (u16le [98]) (vv b) (wire_bytes (u16le [98]) b)] in
  let items := [item 1 258; item 2 772; item 255 65535] in
  let ps_item := map m_p (rms (item 0 0)) in
  let rs := [leaf_rm (mkF [115] 8 BUint None true BUint (Some (VInt 34))) (vv 34) (wire_bytes (mkF [115] 8 BUint None true BUint (Some (VInt 34))) 34);
             leaf_rm (u8 [122]) (vv 9) (wire_bytes (u8 [122]) 9)] in
  let ms := rms rs ++ [eop_member [102] ps_item items] in
  (forall x, In x rs -> rgood 2 x) /\ (forall it, In it items -> eitem_ok 2 ps_item it) /\
  NoDup (map m_name ms) /\ (2 + 5 <= fuel_of (map m_p ms))%nat.
Proof. exact eop_premises. Qed.
Print Assumptions C01_end_of_pdu_premises.

Example C01_end_of_pdu_example :
  let u8 nm := mkF nm 8 BUint None true BUint None in
  let u16le nm := mkF nm 16 BUint None false BUint None in
  let vv (z : Z) := fun _ : name => VInt z in
  let item (a b : Z) := [leaf_rm (u8 [97]) (vv a) (wire_bytes (u8 [97]) a); leaf_rm (u16le [98]) (vv b) (wire_bytes (u16le [98]) b)] in
  let items := [item 1 258; item 2 772; item 255 65535] in
  let ps_item := map m_p (rms (item 0 0)) in
  let rs := [leaf_rm (mkF [115] 8 BUint None true BUint (Some (VInt 34))) (vv 34) [34];
             leaf_rm (u8 [122]) (vv 9) [9]] in
  let ms := rms rs ++ [eop_member [102] ps_item items] in
  let pdu := rbytes rs ++ concat (map rbytes items) in
  pdu = [34; 9; 1; 2; 1; 2; 4; 3; 255; 255; 255] /\
  encode_msg (map m_p ms) None (VDict (in_dict ms)) = Ok (pdu, false) /\
  decode_msg (map m_p ms) pdu = Ok (VDict (out_dict ms)) /\
  encode_msg (map m_p (rms rs ++ [eop_member [102] ps_item []])) None (VDict (in_dict (rms rs ++ [eop_member [102] ps_item []]))) = Ok ([34; 9], false) /\
  decode_msg (map m_p (rms rs ++ [eop_member [102] ps_item []])) [34; 9] = Ok (VDict (out_dict (rms rs ++ [eop_member [102] ps_item []]))).
Proof. exact eop_example. Qed.
Print Assumptions C01_end_of_pdu_example.

(* ---------- structures with a BYTE-SIZE (Proofs/BStructProofs.v) ---------- *)
(* a structure of good members whose bytes do not exceed the declared size is a good member: zero bytes up to the
   declared size follow its members, the decoder continues behind the declared size *)
Theorem C01_byte_size_structure_member : forall k nm rs b,
  (forall x, In x rs -> rgood k x) -> NoDup (map m_name (rms rs)) -> blen (rbytes rs) <= b ->
  rgood (3 + k) (bstruct_rm nm rs b).
Proof. exact bstruct_rgood. Qed.
Print Assumptions C01_byte_size_structure_member.

Example C01_byte_size_structure_premises :
  let u8 nm := mkF nm 8 BUint None true BUint None in
  let u16 nm := mkF nm 16 BUint None true BUint None in
  let vv (z : Z) := fun _ : name => VInt z in
  let inner := [leaf_rm (u8 [97]) (vv 7) (wire_bytes (u8 [97]) 7); leaf_rm (u16 [98]) (vv 258) (wire_bytes (u16 [98]) 258)] in
  let rs := [leaf_rm (mkF [115] 8 BUint None true BUint (Some (VInt 34))) (vv 34) (wire_bytes (mkF [115] 8 BUint None true BUint (Some (VInt 34))) 34);
             bstruct_rm [116] inner 5;
             leaf_rm (u8 [122]) (vv 9) (wire_bytes (u8 [122]) 9)] in
  (forall x, In x rs -> rgood 5 x) /\ NoDup (map m_name (rms rs)) /\ (5 + 1 <= fuel_of (map m_p (rms rs)))%nat.
Proof. exact bstruct_premises. Qed.
Print Assumptions C01_byte_size_structure_premises.

Example C01_byte_size_structure_example :
  let u8 nm := mkF nm 8 BUint None true BUint None in
  let u16 nm := mkF nm 16 BUint None true BUint None in
  let vv (z : Z) := fun _ : name => VInt z in
  let inner := [leaf_rm (u8 [97]) (vv 7) (wire_bytes (u8 [97]) 7); leaf_rm (u16 [98]) (vv 258) (wire_bytes (u16 [98]) 258)] in
  let mk b := [leaf_rm (mkF [115] 8 BUint None true BUint (Some (VInt 34))) (vv 34) [34];
               bstruct_rm [116] inner b;
               leaf_rm (u8 [122]) (vv 9) [9]] in
  rbytes (mk 5) = [34; 7; 1; 2; 0; 0; 9] /\ rbytes (mk 3) = [34; 7; 1; 2; 9] /\
  encode_msg (map m_p (rms (mk 5))) None (VDict (in_dict (rms (mk 5)))) = Ok (rbytes (mk 5), false) /\
  decode_msg (map m_p (rms (mk 5))) (rbytes (mk 5)) = Ok (VDict (out_dict (rms (mk 5)))) /\
  encode_msg (map m_p (rms (mk 3))) None (VDict (in_dict (rms (mk 3)))) = Ok (rbytes (mk 3), false) /\
  decode_msg (map m_p (rms (mk 3))) (rbytes (mk 3)) = Ok (VDict (out_dict (rms (mk 3)))).
Proof. exact bstruct_example. Qed.
Print Assumptions C01_byte_size_structure_example.

(* ---------- multiplexers (Proofs/MuxProofs.v) ---------- *)
(* a MUX with an unsigned switch key of up to 64 bits at its start and the case content directly behind the key: a case
   selected by name -- the name is unique among the cases, and the case is the first one whose key range holds its own
   lower limit -- whose structure consists of good members is a good member: the key (= the lower limit) and the bytes
   of the members are appended, decoding returns the name of the case and the members' values.  Case structures may
   hold multiplexers, multiplexers may sit in structures and fields, to any depth. *)
Theorem C01_multiplexer_member : forall k nm kbl hl cases dflt c rs,
  0 < kbl <= 64 ->
  filter (fun c' => bytes_eqb (mc_name c') (mc_name c)) cases = [c] ->
  find (mc_applies (mc_lo c)) cases = Some c ->
  0 <= mc_lo c < 2 ^ kbl ->
  mc_struct c = Some (DStruct (map m_p (rms rs)) None) ->
  (forall x, In x rs -> rgood k x) -> NoDup (map m_name (rms rs)) ->
  rgood (4 + k) (mux_rm nm kbl hl cases dflt c rs).
Proof. exact mux_rgood. Qed.
Print Assumptions C01_multiplexer_member.

Theorem C01_multiplexer_values : forall nm kbl hl cases dflt c rs,
  m_p (r_m (mux_rm nm kbl hl cases dflt c rs)) =
    P nm None None (KValue (DMux (nbytes_of kbl 0) 0 0 (DSimple (Std BUint None hl kbl None) CIdent BUint) cases dflt) None) /\
  m_in (r_m (mux_rm nm kbl hl cases dflt c rs)) = Some (VList [VStr (mc_name c); VDict (in_dict (rms rs))]) /\
  m_out (r_m (mux_rm nm kbl hl cases dflt c rs)) = VList [VStr (mc_name c); VDict (out_dict (rms rs))].
Proof. intros. repeat split. Qed.
Print Assumptions C01_multiplexer_values.

Example C01_multiplexer_premises :
  let u8 nm := mkF nm 8 BUint None true BUint None in
  let u16 nm := mkF nm 16 BUint None true BUint None in
  let vv (z : Z) := fun _ : name => VInt z in
  let in1 := [leaf_rm (u8 [97]) (vv 7) (wire_bytes (u8 [97]) 7); leaf_rm (u16 [98]) (vv 258) (wire_bytes (u16 [98]) 258)] in
  let in2 := [leaf_rm (u8 [99]) (vv 200) (wire_bytes (u8 [99]) 200)] in
  let c1 := MC [120] 16 31 (Some (DStruct (map m_p (rms in1)) None)) in
  let c2 := MC [121] 32 32 (Some (DStruct (map m_p (rms in2)) None)) in
  let rs := [leaf_rm (mkF [115] 8 BUint None true BUint (Some (VInt 34))) (vv 34) (wire_bytes (mkF [115] 8 BUint None true BUint (Some (VInt 34))) 34);
             mux_rm [109] 8 true [c1; c2] None c1 in1;
             leaf_rm (u8 [122]) (vv 9) (wire_bytes (u8 [122]) 9)] in
  (forall x, In x rs -> rgood 6 x) /\ NoDup (map m_name (rms rs)) /\ (6 + 1 <= fuel_of (map m_p (rms rs)))%nat.
Proof. exact mux_premises. Qed.
Print Assumptions C01_multiplexer_premises.

Example C01_multiplexer_example :
  let u8 nm := mkF nm 8 BUint None true BUint None in
  let u16 nm := mkF nm 16 BUint None true BUint None in
  let vv (z : Z) := fun _ : name => VInt z in
  let in1 := [leaf_rm (u8 [97]) (vv 7) (wire_bytes (u8 [97]) 7); leaf_rm (u16 [98]) (vv 258) (wire_bytes (u16 [98]) 258)] in
  let in2 := [leaf_rm (u8 [99]) (vv 200) (wire_bytes (u8 [99]) 200)] in
  let c1 := MC [120] 16 31 (Some (DStruct (map m_p (rms in1)) None)) in
  let c2 := MC [121] 32 32 (Some (DStruct (map m_p (rms in2)) None)) in
  let mk c rs := [leaf_rm (mkF [115] 8 BUint None true BUint (Some (VInt 34))) (vv 34) [34];
                  mux_rm [109] 8 true [c1; c2] None c rs;
                  leaf_rm (u8 [122]) (vv 9) [9]] in
  rbytes (mk c1 in1) = [34; 16; 7; 1; 2; 9] /\ rbytes (mk c2 in2) = [34; 32; 200; 9] /\
  encode_msg (map m_p (rms (mk c1 in1))) None (VDict (in_dict (rms (mk c1 in1)))) = Ok (rbytes (mk c1 in1), false) /\
  decode_msg (map m_p (rms (mk c1 in1))) (rbytes (mk c1 in1)) = Ok (VDict (out_dict (rms (mk c1 in1)))) /\
  encode_msg (map m_p (rms (mk c2 in2))) None (VDict (in_dict (rms (mk c2 in2)))) = Ok (rbytes (mk c2 in2), false) /\
  decode_msg (map m_p (rms (mk c2 in2))) (rbytes (mk c2 in2)) = Ok (VDict (out_dict (rms (mk c2 in2)))).
Proof. exact mux_example. Qed.
Print Assumptions C01_multiplexer_example.

(* ---------- multiplexers, every way of selecting a case (Proofs/MuxSelProofs.v) ---------- *)
(* what the encoder selects for a case specification (content of the case, value of the switch key), and the case
   the decoder selects for a key; both are the model's own expressions (the unfolding lemmas are proved by reflexivity) *)
Theorem C01_multiplexer_selection_defs : forall cases dflt spec key,
  mux_select cases dflt spec =
    match spec with
    | VStr nm =>
      match filter (fun c => bytes_eqb (mc_name c) nm) cases with
      | [] => match dflt with Some c => Ok (mc_struct c, 0) | None => Err ERej end
      | [c] => Ok (mc_struct c, mc_lo c)
      | _ => Err ERej
      end
    | VInt n =>
      match filter (mc_applies n) cases with
      | [] => match dflt with Some c => Ok (mc_struct c, n) | None => Err ERej end
      | c :: _ => Ok (mc_struct c, n)
      end
    | VNone => match dflt with Some c => Ok (mc_struct c, 0) | None => Err ERej end
    | _ => Err ERej
    end /\
  mux_case_of cases dflt key = match find (mc_applies key) cases with Some c => Some c | None => dflt end.
Proof. intros. split; reflexivity. Qed.
Print Assumptions C01_multiplexer_selection_defs.

(* whenever the encoder selects case c with key `key` for the specification and the decoder selects c for that key,
   the multiplexer is a good member: the key and the content's bytes are written, the case NAME and the content's values
   are read back (a number or None as specification is not returned: it is the name of the case which comes back) *)
Theorem C01_multiplexer_selected_member : forall k nm kbl hl cases dflt c spec key rs,
  0 < kbl <= 64 -> 0 <= key < 2 ^ kbl ->
  mux_select cases dflt spec = Ok (mc_struct c, key) -> mux_case_of cases dflt key = Some c ->
  mc_struct c = Some (DStruct (map m_p (rms rs)) None) ->
  (forall x, In x rs -> rgood k x) -> NoDup (map m_name (rms rs)) ->
  rgood (4 + k) (mux_sel_rm nm kbl hl cases dflt c spec key rs).
Proof. exact mux_sel_rgood. Qed.
Print Assumptions C01_multiplexer_selected_member.

(* a case without content: only the switch key is written, whatever the caller passes as content; the empty dictionary
   is read back *)
Theorem C01_multiplexer_empty_case_member : forall nm kbl hl cases dflt c spec cv key,
  0 < kbl <= 64 -> 0 <= key < 2 ^ kbl ->
  mux_select cases dflt spec = Ok (mc_struct c, key) -> mux_case_of cases dflt key = Some c ->
  mc_struct c = None ->
  rgood 3 (mux_empty_rm nm kbl hl cases dflt c spec cv key).
Proof. exact mux_empty_rgood. Qed.
Print Assumptions C01_multiplexer_empty_case_member.

(* the selection hypotheses hold: by number (first case holding it), by a number no case holds or by None or by an
   unknown name (default case; key 0 must not be claimed by a case), by name (unique, first case for its lower limit) *)
Theorem C01_multiplexer_selection_by_number : forall cases dflt n c rest,
  filter (mc_applies n) cases = c :: rest ->
  mux_select cases dflt (VInt n) = Ok (mc_struct c, n) /\ mux_case_of cases dflt n = Some c.
Proof. exact select_by_number. Qed.
Print Assumptions C01_multiplexer_selection_by_number.
Theorem C01_multiplexer_default_by_number : forall cases c n,
  filter (mc_applies n) cases = [] ->
  mux_select cases (Some c) (VInt n) = Ok (mc_struct c, n) /\ mux_case_of cases (Some c) n = Some c.
Proof. exact select_default_by_number. Qed.
Print Assumptions C01_multiplexer_default_by_number.
Theorem C01_multiplexer_default_by_none : forall cases c,
  filter (mc_applies 0) cases = [] ->
  mux_select cases (Some c) VNone = Ok (mc_struct c, 0) /\ mux_case_of cases (Some c) 0 = Some c.
Proof. exact select_default_by_none. Qed.
Print Assumptions C01_multiplexer_default_by_none.
Theorem C01_multiplexer_default_by_name : forall cases c nm,
  filter (fun c' => bytes_eqb (mc_name c') nm) cases = [] -> filter (mc_applies 0) cases = [] ->
  mux_select cases (Some c) (VStr nm) = Ok (mc_struct c, 0) /\ mux_case_of cases (Some c) 0 = Some c.
Proof. exact select_default_by_name. Qed.
Print Assumptions C01_multiplexer_default_by_name.
Theorem C01_multiplexer_selection_by_name : forall cases dflt c,
  filter (fun c' => bytes_eqb (mc_name c') (mc_name c)) cases = [c] -> find (mc_applies (mc_lo c)) cases = Some c ->
  mux_select cases dflt (VStr (mc_name c)) = Ok (mc_struct c, mc_lo c) /\ mux_case_of cases dflt (mc_lo c) = Some c.
Proof. exact select_by_name. Qed.
Print Assumptions C01_multiplexer_selection_by_name.

Example C01_multiplexer_selection_example :
  let u8 nm := mkF nm 8 BUint None true BUint None in
  let u16 nm := mkF nm 16 BUint None true BUint None in
  let vv (z : Z) := fun _ : name => VInt z in
  let in1 := [leaf_rm (u8 [97]) (vv 7) (wire_bytes (u8 [97]) 7)] in
  let ind := [leaf_rm (u16 [100]) (vv 258) (wire_bytes (u16 [100]) 258)] in
  let c1 := MC [120] 16 31 (Some (DStruct (map m_p (rms in1)) None)) in
  let c2 := MC [121] 32 32 None in
  let cd := MC [122] 0 0 (Some (DStruct (map m_p (rms ind)) None)) in
  let sid := leaf_rm (mkF [115] 8 BUint None true BUint (Some (VInt 34))) (vv 34) [34] in
  let tail := leaf_rm (u8 [116]) (vv 9) [9] in
  let m1 := [sid; mux_sel_rm [109] 8 true [c1; c2] (Some cd) c1 (VInt 20) 20 in1; tail] in
  let m2 := [sid; mux_empty_rm [109] 8 true [c1; c2] (Some cd) c2 (VStr [121]) (VInt 5) 32; tail] in
  let m3 := [sid; mux_sel_rm [109] 8 true [c1; c2] (Some cd) cd VNone 0 ind; tail] in
  let m4 := [sid; mux_sel_rm [109] 8 true [c1; c2] (Some cd) cd (VInt 99) 99 ind; tail] in
  let ok m := encode_msg (map m_p (rms m)) None (VDict (in_dict (rms m))) = Ok (rbytes m, false) /\
              decode_msg (map m_p (rms m)) (rbytes m) = Ok (VDict (out_dict (rms m))) in
  rbytes m1 = [34; 20; 7; 9] /\ rbytes m2 = [34; 32; 9] /\ rbytes m3 = [34; 0; 1; 2; 9] /\ rbytes m4 = [34; 99; 1; 2; 9] /\
  ok m1 /\ ok m2 /\ ok m3 /\ ok m4.
Proof. exact mux_sel_example. Qed.
Print Assumptions C01_multiplexer_selection_example.

Example C01_multiplexer_selection_premises :
  let u8 nm := mkF nm 8 BUint None true BUint None in
  let u16 nm := mkF nm 16 BUint None true BUint None in
  let vv (z : Z) := fun _ : name => VInt z in
  let in1 := [leaf_rm (u8 [97]) (vv 7) (wire_bytes (u8 [97]) 7)] in
  let ind := [leaf_rm (u16 [100]) (vv 258) (wire_bytes (u16 [100]) 258)] in
  let c1 := MC [120] 16 31 (Some (DStruct (map m_p (rms in1)) None)) in
  let c2 := MC [121] 32 32 None in
  let cd := MC [122] 0 0 (Some (DStruct (map m_p (rms ind)) None)) in
  rgood 6 (mux_sel_rm [109] 8 true [c1; c2] (Some cd) c1 (VInt 20) 20 in1) /\
  rgood 3 (mux_empty_rm [109] 8 true [c1; c2] (Some cd) c2 (VStr [121]) (VInt 5) 32) /\
  rgood 6 (mux_sel_rm [109] 8 true [c1; c2] (Some cd) cd VNone 0 ind) /\
  rgood 6 (mux_sel_rm [109] 8 true [c1; c2] (Some cd) cd (VInt 99) 99 ind).
Proof. exact mux_sel_premises. Qed.
Print Assumptions C01_multiplexer_selection_premises.

(* ---------- LINEAR computational methods at message level (Proofs/LinearLeafProofs.v) ---------- *)
(* physical = offset + factor * internal (integer coefficients, any non-zero factor, optional internal limits) on an
   unsigned object of up to 64 bits: for EVERY internal value x within the limits and the bit length, the physical
   value encodes to the bytes of x (wire_bytes) and decodes to itself -- a good member, so it may appear in
   structures and fields at any depth *)
Theorem C01_linear_leaf_member : forall nm bl hl off num lo hi x,
  0 < bl <= 64 -> num <> 0 -> 0 <= x < 2 ^ bl -> in_limits lo hi x = true ->
  rgood 2 (lin_rm nm bl hl off num lo hi x).
Proof. exact lin_rgood. Qed.
Print Assumptions C01_linear_leaf_member.

Theorem C01_linear_leaf_values : forall nm bl hl off num lo hi x,
  m_in (r_m (lin_rm nm bl hl off num lo hi x)) = Some (VInt (off + num * x)) /\
  m_out (r_m (lin_rm nm bl hl off num lo hi x)) = VInt (off + num * x) /\
  r_w (lin_rm nm bl hl off num lo hi x) = wire_bytes (raw_fd nm bl hl) x.
Proof. intros. repeat split; reflexivity. Qed.
Print Assumptions C01_linear_leaf_values.

Example C01_linear_premises :
  let vv (z : Z) := fun _ : name => VInt z in
  let rs := [leaf_rm (mkF [115] 8 BUint None true BUint (Some (VInt 34))) (vv 34) (wire_bytes (mkF [115] 8 BUint None true BUint (Some (VInt 34))) 34);
             lin_rm [116] 8 true (-40) 2 (Some 0) (Some 200) 100;
             lin_rm [114] 16 false 1000 (-3) None None 513] in
  (forall x, In x rs -> rgood 2 x) /\ NoDup (map m_name (rms rs)) /\ (2 + 1 <= fuel_of (map m_p (rms rs)))%nat.
Proof. exact linear_premises. Qed.
Print Assumptions C01_linear_premises.

Example C01_linear_example :
  let vv (z : Z) := fun _ : name => VInt z in
  let rs := [leaf_rm (mkF [115] 8 BUint None true BUint (Some (VInt 34))) (vv 34) [34];
             lin_rm [116] 8 true (-40) 2 (Some 0) (Some 200) 100;
             lin_rm [114] 16 false 1000 (-3) None None 513] in
  rbytes rs = [34; 100; 1; 2] /\
  in_dict (rms rs) = [([116], VInt 160); ([114], VInt (-539))] /\
  encode_msg (map m_p (rms rs)) None (VDict (in_dict (rms rs))) = Ok (rbytes rs, false) /\
  decode_msg (map m_p (rms rs)) (rbytes rs) = Ok (VDict (out_dict (rms rs))).
Proof. exact linear_example. Qed.
Print Assumptions C01_linear_example.

(* ---------- RESERVED parameters (Proofs/ReservedProofs.v) ---------- *)
(* reserved bits at an implicit position are whole zero bytes on the wire, nothing is handed to the encoder for them,
   and the decoder steps over them: a good member *)
Theorem C01_reserved_member : forall nm bl, 0 < bl <= 64 -> rgood 1 (reserved_rm nm bl).
Proof. exact reserved_rgood. Qed.
Print Assumptions C01_reserved_member.

Theorem C01_reserved_values : forall nm bl,
  m_in (r_m (reserved_rm nm bl)) = None /\ r_w (reserved_rm nm bl) = zeros (nbytes_of bl 0).
Proof. intros. split; reflexivity. Qed.
Print Assumptions C01_reserved_values.

Example C01_reserved_example :
  let vv (z : Z) := fun _ : name => VInt z in
  let rs := [leaf_rm (mkF [115] 8 BUint None true BUint (Some (VInt 34))) (vv 34) [34];
             reserved_rm [114] 12;
             leaf_rm (mkF [122] 8 BUint None true BUint None) (vv 9) [9]] in
  rbytes rs = [34; 0; 0; 9] /\
  in_dict (rms rs) = [([122], VInt 9)] /\
  encode_msg (map m_p (rms rs)) None (VDict (in_dict (rms rs))) = Ok (rbytes rs, false) /\
  decode_msg (map m_p (rms rs)) (rbytes rs) = Ok (VDict (out_dict (rms rs))).
Proof. exact reserved_example. Qed.
Print Assumptions C01_reserved_example.

(* ---------- bit fields: explicit BYTE- and BIT-POSITIONs (Proofs/BitFieldProofs.v) ---------- *)
(* a STRUCTURE whose parameters are unsigned objects of 1..8 bits, all at BYTE-POSITION 0 of the structure with
   explicit BIT-POSITIONs, on pairwise disjoint bit ranges of that byte, listed in ANY order (packed_ok): for all
   values which fit their bit lengths the structure is a good member -- one byte on the wire, every parameter reads
   its value back, no overlap warning *)
Theorem C01_bit_field_structure_member : forall vv nm fs, packed_ok vv fs -> rgood 5 (packed_rm vv nm fs).
Proof. exact packed_rgood. Qed.
Print Assumptions C01_bit_field_structure_member.

Example C01_bit_field_premises :
  let flags := [mkBF [101] 7 1; mkBF [114] 0 1; mkBF [109] 1 3] in
  let bv := fun nm : name => match nm with [101] => 1 | [114] => 1 | [109] => 5 | _ => 0 end in
  packed_ok bv flags.
Proof. exact packed_premises. Qed.
Print Assumptions C01_bit_field_premises.

Example C01_bit_field_example :
  let vv (z : Z) := fun _ : name => VInt z in
  let flags := [mkBF [101] 7 1; mkBF [114] 0 1; mkBF [109] 1 3] in
  let bv := fun nm : name => match nm with [101] => 1 | [114] => 1 | [109] => 5 | _ => 0 end in
  let rs := [leaf_rm (mkF [115] 8 BUint None true BUint (Some (VInt 98))) (vv 98) [98];
             packed_rm bv [102] flags;
             leaf_rm (mkF [119] 16 BUint None true BUint None) (vv 258) [1; 2]] in
  rbytes rs = [98; 139; 1; 2] /\
  encode_msg (map m_p (rms rs)) None (VDict (in_dict (rms rs))) = Ok (rbytes rs, false) /\
  decode_msg (map m_p (rms rs)) (rbytes rs) = Ok (VDict (out_dict (rms rs))).
Proof. exact packed_example. Qed.
Print Assumptions C01_bit_field_example.

(* ---------- further leaf kinds as good members (Proofs/LeafKindsProofs.v) ---------- *)
(* whatever the raw encoder accepts for a signed integer (two's / one's complement, sign-magnitude, either byte
   order), a byte field or an ISO-8859-1 string is a good member whose bytes are the wire bytes of the raw value *)
Theorem C01_signed_leaf_member : forall nm bl en hl z raw,
  0 < bl <= 64 -> (en = None \/ en = Some Enc2C \/ en = Some Enc1C \/ en = Some EncSM) ->
  raw_of (VInt z) bl BInt en hl = Ok raw ->
  rgood 2 (leaf_rm (mkF nm bl BInt en hl BInt None) (fun _ => VInt z) (wire_bytes (mkF nm bl BInt en hl BInt None) raw)).
Proof. exact int_leaf_rgood. Qed.
Print Assumptions C01_signed_leaf_member.

Theorem C01_bytefield_leaf_member : forall nm hl b,
  bytes_ok b = true -> 0 < blen b ->
  rgood 2 (leaf_rm (mkF nm (8 * blen b) BBytes None hl BBytes None) (fun _ => VBytes b)
                   (wire_bytes (mkF nm (8 * blen b) BBytes None hl BBytes None) (be_int b))).
Proof. exact bytes_leaf_rgood. Qed.
Print Assumptions C01_bytefield_leaf_member.

Theorem C01_ascii_leaf_member : forall nm bl hl s raw,
  0 < bl -> raw_of (VStr s) bl BAscii None hl = Ok raw ->
  rgood 2 (leaf_rm (mkF nm bl BAscii None hl BAscii None) (fun _ => VStr s) (wire_bytes (mkF nm bl BAscii None hl BAscii None) raw)).
Proof. exact ascii_leaf_rgood. Qed.
Print Assumptions C01_ascii_leaf_member.

Example C01_leaf_kinds_example :
  let vv (z : Z) := fun _ : name => VInt z in
  let sm := mkF [97] 8 BInt (Some EncSM) true BInt None in
  let tc := mkF [98] 16 BInt None false BInt None in
  let bf := mkF [99] 24 BBytes None true BBytes None in
  let st := mkF [100] 16 BAscii None true BAscii None in
  let rs := [leaf_rm (mkF [115] 8 BUint None true BUint (Some (VInt 34))) (vv 34) [34];
             leaf_rm sm (vv (-2)) (wire_bytes sm 130);
             leaf_rm tc (vv (-2)) (wire_bytes tc 65534);
             leaf_rm bf (fun _ => VBytes [1; 2; 3]) (wire_bytes bf (be_int [1; 2; 3]));
             leaf_rm st (fun _ => VStr [72; 105]) (wire_bytes st 18537)] in
  rbytes rs = [34; 130; 254; 255; 1; 2; 3; 72; 105] /\
  encode_msg (map m_p (rms rs)) None (VDict (in_dict (rms rs))) = Ok (rbytes rs, false) /\
  decode_msg (map m_p (rms rs)) (rbytes rs) = Ok (VDict (out_dict (rms rs))).
Proof. exact leaf_kinds_example. Qed.
Print Assumptions C01_leaf_kinds_example.
