(* C01 -- encoding a message and decoding it returns the values that were encoded.
   PROVED HERE: the atomic layer, for every bit length > 0, every bit position,
   both byte orders, any previous message content: what emplace_atomic_value
   writes, extract_atomic_value reads back (C01_atomic_roundtrip), and for each
   base type the raw value determines the internal value (C01_*_values).
   PROVED AT MESSAGE LEVEL (C01_flat_message_roundtrip): for every message which is a
   sequence of CODED-CONST / VALUE parameters with implicit positions over STANDARD-LENGTH types
   (any base type / encoding / byte order / bit length, no bit mask, IDENTICAL compu
   method), any number of parameters: Request.encode succeeds without overlap warning
   and Request.decode of the result returns exactly the encoded values -- stated about
   the model's real entry points encode_msg / decode_msg.
   NOT PROVED (correspondence + oracle only): parameter trees with structures, fields,
   dynamic-length types, explicit or bit positions (see DESIGN.md, "partial"). *)
From Coq Require Import ZArith List Bool.
From OV Require Import Base.Bytes Base.Wire Generated Model.Str Model.Codec Proofs.BytesProofs Proofs.AtomicProofs Proofs.CodecProps Proofs.FlatProofs.
Import ListNotations.
Open Scope Z_scope.

Theorem C01_atomic_roundtrip_partial :
  forall s v bl bt en hl s' raw lk,
    0 < bl -> 0 <= e_cur s -> 0 <= e_bit s -> bytes_ok (e_msg s) = true ->
    raw_of v bl bt en hl = Ok raw -> 0 <= raw < 2 ^ bl ->
    emplace_atomic s v bl bt en hl None = Ok s' ->
    extract_atomic (dview s' (e_cur s) (e_bit s) lk) bl bt en hl =
      (do v' <- value_of_raw raw bl bt en hl; Ok (v', mkD (e_msg s') 0 (e_cur s') 0 lk))
    /\ e_cur s' = e_cur s + nbytes_of bl (e_bit s) /\ bytes_ok (e_msg s') = true.
Proof. exact emplace_then_extract. Qed.
Print Assumptions C01_atomic_roundtrip_partial.

Theorem C01_signed_values : forall z bl en hl raw,
  0 < bl -> (en = None \/ en = Some Enc2C \/ en = Some Enc1C \/ en = Some EncSM) ->
  raw_of (VInt z) bl BInt en hl = Ok raw ->
  0 <= raw < 2 ^ bl /\ value_of_raw raw bl BInt en hl = Ok (VInt z).
Proof. exact int_raw_roundtrip. Qed.
Print Assumptions C01_signed_values.

Theorem C01_unsigned_values : forall z bl en hl raw,
  0 <= bl -> (en = None \/ en = Some EncNONE) ->
  raw_of (VInt z) bl BUint en hl = Ok raw ->
  0 <= raw < 2 ^ bl /\ value_of_raw raw bl BUint en hl = Ok (VInt z).
Proof. exact uint_raw_roundtrip. Qed.
Print Assumptions C01_unsigned_values.

Theorem C01_bytefield_values : forall b bl en hl raw,
  bytes_ok b = true -> raw_of (VBytes b) bl BBytes en hl = Ok raw ->
  0 <= raw < 2 ^ bl /\ value_of_raw raw bl BBytes en hl = Ok (VBytes b).
Proof. exact bytes_raw_roundtrip. Qed.
Print Assumptions C01_bytefield_values.

Theorem C01_latin1_string_values : forall s bl hl raw,
  raw_of (VStr s) bl BAscii None hl = Ok raw ->
  0 <= raw < 2 ^ bl /\ value_of_raw raw bl BAscii None hl = Ok (VStr s).
Proof. exact latin1_raw_roundtrip. Qed.
Print Assumptions C01_latin1_string_values.

Theorem C01_nonvacuous :
  (do s <- emplace_atomic (mkE [255; 255; 255] [0; 0; 0] 0 1 3 true [] [] None false)
                          (VInt 2748) 12 BUint None true None; Ok (e_msg s, e_cur s))
  = Ok ([255; 213; 231], 3)
  /\ (do s <- emplace_atomic (mkE [] [] 0 0 3 true [] [] None false)
                             (VInt 2748) 12 BUint None false None; Ok (e_msg s, e_cur s))
  = Ok ([224; 85], 2).
Proof. exact emplace_example. Qed.

(* message level: any number of sequential standard-length CODED-CONST / VALUE parameters; the
   caller passes the VALUE parameters, the decoder returns all parameters *)
Theorem C01_flat_message_roundtrip : forall fl vv,
  (forall x, In x fl -> fits x (vv (fname x))) -> NoDup (map fname fl) ->
  exists msg,
    encode_msg (map mkp fl) None (VDict (fvals vv (filter is_value fl))) = Ok (msg, false) /\
    decode_msg (map mkp fl) msg = Ok (VDict (fvals vv fl)) /\
    blen msg = fold_right (fun x a => fbytes x + a) 0 fl.
Proof. exact flat_roundtrip. Qed.
Print Assumptions C01_flat_message_roundtrip.

(* the hypothesis is satisfiable: unsigned integers in range, signed integers raw_of accepts,
   unsigned constants *)
Theorem C01_fits_uint : forall nm bl hl z,
  0 < bl <= 64 -> 0 <= z < 2 ^ bl -> fits (mkF nm bl BUint None hl BUint None) (VInt z).
Proof. exact fits_uint. Qed.
Print Assumptions C01_fits_uint.

Theorem C01_fits_int : forall nm bl en hl z raw,
  0 < bl <= 64 -> (en = None \/ en = Some Enc2C \/ en = Some Enc1C \/ en = Some EncSM) ->
  raw_of (VInt z) bl BInt en hl = Ok raw -> fits (mkF nm bl BInt en hl BInt None) (VInt z).
Proof. exact fits_int. Qed.
Print Assumptions C01_fits_int.

Theorem C01_fits_const_uint : forall nm bl hl z,
  0 < bl <= 64 -> 0 <= z < 2 ^ bl -> fits (mkF nm bl BUint None hl BUint (Some (VInt z))) (VInt z).
Proof. exact fits_const_uint. Qed.
Print Assumptions C01_fits_const_uint.

Theorem C01_flat_example :
  let fl := [mkF [115] 8 BUint None true BUint (Some (VInt 34));
             mkF [112; 50] 12 BUint None false BUint None;
             mkF [112; 51] 64 BUint None true BUint None; mkF [112; 52] 8 BInt (Some Enc2C) true BInt None] in
  let vv := fun nm => if bytes_eqb nm [115] then VInt 34 else if bytes_eqb nm [112; 50] then VInt 2748
                      else if bytes_eqb nm [112; 51] then VInt (2 ^ 64 - 1) else VInt (-2) in
  encode_msg (map mkp fl) None (VDict (fvals vv (filter is_value fl))) =
    Ok ([34; 188; 10; 255; 255; 255; 255; 255; 255; 255; 255; 254], false) /\
  decode_msg (map mkp fl) [34; 188; 10; 255; 255; 255; 255; 255; 255; 255; 255; 254] = Ok (VDict (fvals vv fl)) /\
  static_bits_msg (map mkp fl) = Some 96.
Proof. exact flat_example. Qed.
Print Assumptions C01_flat_example.
