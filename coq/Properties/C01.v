(* C01 -- encoding a message and decoding it returns the values that were encoded.
   PROVED HERE: the atomic layer, for every bit length > 0, every bit position,
   both byte orders, any previous message content: what emplace_atomic_value
   writes, extract_atomic_value reads back (C01_atomic_roundtrip), and for each
   base type the raw value determines the internal value (C01_*_values).
   PROVED AT MESSAGE LEVEL (C01_flat_message_roundtrip): for every message which is a
   sequence of CODED-CONST / VALUE parameters with implicit positions over STANDARD-LENGTH types
   (any base type / encoding / byte order / bit length, no bit mask, IDENTICAL compu
   method), any number of parameters: Request.encode succeeds without overlap warning
   and Request.decode of the result returns exactly the encoded values -- stated about
   the model's real entry points encode_msg / decode_msg.
   ... AND FOR NESTED STRUCTURES (C01_nested_message_roundtrip): the same for parameter trees
   in which a VALUE parameter may be a STRUCTURE of such parameters, to any nesting depth
   (side condition: the model's fuel suffices, a computable inequality), with PHYS-CONST
   parameters and LEADING-LENGTH byte fields as further leaf kinds.
   NOT PROVED (correspondence + oracle only): fields, dynamic-length types, explicit or bit
   positions, BYTE-SIZE, length keys (see DESIGN.md, "partial"). *)
From Coq Require Import ZArith List Bool.
From OV Require Import Base.Bytes Base.Wire Generated Model.Str Model.Codec Proofs.BytesProofs Proofs.AtomicProofs Proofs.CodecProps Proofs.FlatProofs Proofs.TreeProofs.
Import ListNotations.
Open Scope Z_scope.

Theorem C01_atomic_roundtrip_partial :
  forall s v bl bt en hl s' raw lk,
    0 < bl -> 0 <= e_cur s -> 0 <= e_bit s -> bytes_ok (e_msg s) = true ->
    raw_of v bl bt en hl = Ok raw -> 0 <= raw < 2 ^ bl ->
    emplace_atomic s v bl bt en hl None = Ok s' ->
    extract_atomic (dview s' (e_cur s) (e_bit s) lk) bl bt en hl =
      (do v' <- value_of_raw raw bl bt en hl; Ok (v', mkD (e_msg s') 0 (e_cur s') 0 lk))
    /\ e_cur s' = e_cur s + nbytes_of bl (e_bit s) /\ bytes_ok (e_msg s') = true.
Proof. exact emplace_then_extract. Qed.
Print Assumptions C01_atomic_roundtrip_partial.

Theorem C01_signed_values : forall z bl en hl raw,
  0 < bl -> (en = None \/ en = Some Enc2C \/ en = Some Enc1C \/ en = Some EncSM) ->
  raw_of (VInt z) bl BInt en hl = Ok raw ->
  0 <= raw < 2 ^ bl /\ value_of_raw raw bl BInt en hl = Ok (VInt z).
Proof. exact int_raw_roundtrip. Qed.
Print Assumptions C01_signed_values.

Theorem C01_unsigned_values : forall z bl en hl raw,
  0 <= bl -> (en = None \/ en = Some EncNONE) ->
  raw_of (VInt z) bl BUint en hl = Ok raw ->
  0 <= raw < 2 ^ bl /\ value_of_raw raw bl BUint en hl = Ok (VInt z).
Proof. exact uint_raw_roundtrip. Qed.
Print Assumptions C01_unsigned_values.

Theorem C01_bytefield_values : forall b bl en hl raw,
  bytes_ok b = true -> raw_of (VBytes b) bl BBytes en hl = Ok raw ->
  0 <= raw < 2 ^ bl /\ value_of_raw raw bl BBytes en hl = Ok (VBytes b).
Proof. exact bytes_raw_roundtrip. Qed.
Print Assumptions C01_bytefield_values.

Theorem C01_latin1_string_values : forall s bl hl raw,
  raw_of (VStr s) bl BAscii None hl = Ok raw ->
  0 <= raw < 2 ^ bl /\ value_of_raw raw bl BAscii None hl = Ok (VStr s).
Proof. exact latin1_raw_roundtrip. Qed.
Print Assumptions C01_latin1_string_values.

Theorem C01_nonvacuous :
  (do s <- emplace_atomic (mkE [255; 255; 255] [0; 0; 0] 0 1 3 true [] [] None false)
                          (VInt 2748) 12 BUint None true None; Ok (e_msg s, e_cur s))
  = Ok ([255; 213; 231], 3)
  /\ (do s <- emplace_atomic (mkE [] [] 0 0 3 true [] [] None false)
                             (VInt 2748) 12 BUint None false None; Ok (e_msg s, e_cur s))
  = Ok ([224; 85], 2).
Proof. exact emplace_example. Qed.

(* message level: any number of sequential standard-length CODED-CONST / VALUE parameters; the
   caller passes the VALUE parameters, the decoder returns all parameters *)
Theorem C01_flat_message_roundtrip : forall fl vv,
  (forall x, In x fl -> fits x (vv (fname x))) -> NoDup (map fname fl) ->
  exists msg,
    encode_msg (map mkp fl) None (VDict (fvals vv (filter is_value fl))) = Ok (msg, false) /\
    decode_msg (map mkp fl) msg = Ok (VDict (fvals vv fl)) /\
    blen msg = fold_right (fun x a => fbytes x + a) 0 fl.
Proof. exact flat_roundtrip. Qed.
Print Assumptions C01_flat_message_roundtrip.

(* the hypothesis is satisfiable: unsigned integers in range, signed integers raw_of accepts,
   unsigned constants *)
Theorem C01_fits_uint : forall nm bl hl z,
  0 < bl <= 64 -> 0 <= z < 2 ^ bl -> fits (mkF nm bl BUint None hl BUint None) (VInt z).
Proof. exact fits_uint. Qed.
Print Assumptions C01_fits_uint.

Theorem C01_fits_int : forall nm bl en hl z raw,
  0 < bl <= 64 -> (en = None \/ en = Some Enc2C \/ en = Some Enc1C \/ en = Some EncSM) ->
  raw_of (VInt z) bl BInt en hl = Ok raw -> fits (mkF nm bl BInt en hl BInt None) (VInt z).
Proof. exact fits_int. Qed.
Print Assumptions C01_fits_int.

Theorem C01_fits_const_uint : forall nm bl hl z,
  0 < bl <= 64 -> 0 <= z < 2 ^ bl -> fits (mkF nm bl BUint None hl BUint (Some (VInt z))) (VInt z).
Proof. exact fits_const_uint. Qed.
Print Assumptions C01_fits_const_uint.

Theorem C01_flat_example :
  let fl := [mkF [115] 8 BUint None true BUint (Some (VInt 34));
             mkF [112; 50] 12 BUint None false BUint None;
             mkF [112; 51] 64 BUint None true BUint None; mkF [112; 52] 8 BInt (Some Enc2C) true BInt None] in
  let vv := fun nm => if bytes_eqb nm [115] then VInt 34 else if bytes_eqb nm [112; 50] then VInt 2748
                      else if bytes_eqb nm [112; 51] then VInt (2 ^ 64 - 1) else VInt (-2) in
  encode_msg (map mkp fl) None (VDict (fvals vv (filter is_value fl))) =
    Ok ([34; 188; 10; 255; 255; 255; 255; 255; 255; 255; 255; 254], false) /\
  decode_msg (map mkp fl) [34; 188; 10; 255; 255; 255; 255; 255; 255; 255; 255; 254] = Ok (VDict (fvals vv fl)) /\
  static_bits_msg (map mkp fl) = Some 96.
Proof. exact flat_example. Qed.
Print Assumptions C01_flat_example.

(* message level with nesting: every parameter is a standard-length CODED-CONST / VALUE parameter or
   a STRUCTURE of such parameters, recursively; the caller passes nested dictionaries of the VALUE
   parameters (in_dict), the decoder returns nested dictionaries of all parameters (out_dict) *)
Theorem C01_nested_message_roundtrip : forall ts d,
  (forall t, In t ts -> (depth t <= d)%nat /\ wf t) ->
  NoDup (map (fun t => m_name (t_member t)) ts) ->
  let ms := map t_member ts in
  let ps := map m_p ms in
  (3 * d + 3 <= fuel_of ps)%nat ->
  exists msg,
    encode_msg ps None (VDict (in_dict ms)) = Ok (msg, false) /\
    decode_msg ps msg = Ok (VDict (out_dict ms)).
Proof. exact tree_message_roundtrip. Qed.
Print Assumptions C01_nested_message_roundtrip.

Theorem C01_nested_example :
  let u8 nm := mkF nm 8 BUint None true BUint None in
  let ts := [FLeaf (mkF [115] 8 BUint None true BUint (Some (VInt 34))) (VInt 34);
             FNode [111] [FLeaf (u8 [97]) (VInt 1);
                          FNode [105] [FLeaf (mkF [98] 12 BUint None false BUint None) (VInt 2748); FLeaf (u8 [99]) (VInt 3)]];
             FLeaf (u8 [122]) (VInt 255)] in
  let ms := map t_member ts in
  let ps := map m_p ms in
  encode_msg ps None (VDict (in_dict ms)) = Ok ([34; 1; 188; 10; 3; 255], false) /\
  decode_msg ps [34; 1; 188; 10; 3; 255] = Ok (VDict (out_dict ms)) /\
  (3 * 2 + 3 <= fuel_of ps)%nat.
Proof. exact tree_example. Qed.
Print Assumptions C01_nested_example.

(* further kinds of parameters which may occur as leaves (FLeafM) of such messages: the tree theorem
   only needs that the parameter appends its encoding and reads it back *)
Theorem C01_physconst_leaf : forall x cv,
  f_const x = None -> fits x cv -> appends_ge 2 2 (physconst_param x cv) None cv.
Proof. exact physconst_appends. Qed.
Print Assumptions C01_physconst_leaf.

(* a byte field with LEADING-LENGTH-INFO-TYPE (a dynamic-length type), the empty field included *)
Theorem C01_leading_length_leaf : forall nm bl hl b,
  0 < bl <= 64 -> bytes_ok b = true -> blen b < 2 ^ bl ->
  appends_ge 2 2 (leading_param nm bl hl) (Some (VBytes b)) (VBytes b).
Proof. exact leading_appends. Qed.
Print Assumptions C01_leading_length_leaf.

Theorem C01_nested_example2 :
  let u8 nm := mkF nm 8 BUint None true BUint None in
  let ts := [FLeaf (mkF [115] 8 BUint None true BUint (Some (VInt 34))) (VInt 34);
             FLeafM (mkM (physconst_param (u8 [107]) (VInt 7)) None (VInt 7));
             FNode [111] [FLeaf (u8 [97]) (VInt 1);
                          FLeafM (mkM (leading_param [108] 8 true) (Some (VBytes [170; 187])) (VBytes [170; 187]))];
             FLeafM (mkM (leading_param [101] 16 false) (Some (VBytes [])) (VBytes []))] in
  let ms := map t_member ts in
  let ps := map m_p ms in
  encode_msg ps None (VDict (in_dict ms)) = Ok ([34; 7; 1; 2; 170; 187; 0; 0], false) /\
  decode_msg ps [34; 7; 1; 2; 170; 187; 0; 0] = Ok (VDict (out_dict ms)).
Proof. exact tree_example2. Qed.
Print Assumptions C01_nested_example2.
