(* C07 -- compu methods compute the mathematically specified conversion.
   Model: Model/Compu.v (integer internal/physical types, exact arithmetic). *)
From Coq Require Import ZArith List Bool.
From OV Require Import Base.Bytes Base.Wire Model.Compu Proofs.CompuProofs.
Import ListNotations.
Open Scope Z_scope.

(* integer results are the exact quotient rounded to nearest (any numerator, any
   non-zero denominator, any sign) ... *)
Theorem C07_rounding_is_nearest : forall n d, d <> 0 -> 2 * Z.abs (n - rdiv n d * d) <= Z.abs d.
Proof. exact rdiv_bound. Qed.
Print Assumptions C07_rounding_is_nearest.

(* ... every integer strictly closer than one half is the result ... *)
Theorem C07_rounding_unique : forall n d z, d <> 0 -> 2 * Z.abs (n - z * d) < Z.abs d -> rdiv n d = z.
Proof. exact rdiv_near. Qed.
Print Assumptions C07_rounding_unique.

(* ... and ties go to the even neighbour, like Python's round() *)
Theorem C07_rounding_ties_to_even : forall n d, 0 < d -> 2 * (n - n / d * d) = d -> Z.even (round_div_pos n d) = true.
Proof. exact round_div_pos_tie_even. Qed.
Print Assumptions C07_rounding_ties_to_even.

(* interval limits honour their OPEN / CLOSED / INFINITE type *)
Theorem C07_limit_semantics_lower : forall l x,
  complies_lower l x = true <->
  match lval l, ltype l with
  | None, _ => True
  | Some v, (None | Some IClosed) => v <= x
  | Some v, Some IOpen => v < x
  | Some v, Some IInfinite => True
  end.
Proof. exact complies_lower_spec. Qed.
Print Assumptions C07_limit_semantics_lower.

Theorem C07_limit_semantics_upper : forall l x,
  complies_upper l x = true <->
  match lval l, ltype l with
  | None, _ => True
  | Some v, (None | Some IClosed) => x <= v
  | Some v, Some IOpen => x < v
  | Some v, Some IInfinite => True
  end.
Proof. exact complies_upper_spec. Qed.
Print Assumptions C07_limit_semantics_upper.

(* LINEAR: the forward conversion is the ODX formula (offset + factor*x)/denominator rounded to nearest *)
Theorem C07_linear_formula : forall s x, den s <> 0 ->
  2 * Z.abs ((off s + num s * x) - seg_i2p s x * den s) <= Z.abs (den s).
Proof. exact linear_formula. Qed.
Print Assumptions C07_linear_formula.

(* injective conversions (slope magnitude above one): the physical image converts back *)
Theorem C07_linear_inverse : forall s x,
  den s <> 0 -> Z.abs (den s) < Z.abs (num s) -> seg_p2i s (seg_i2p s x) = x.
Proof. exact linear_inverse. Qed.
Print Assumptions C07_linear_inverse.

(* slope magnitude exactly one with a half-odd offset is NOT injective: (1 + 2x)/2 maps 1 to 2 and 2 back to 2 *)
Theorem C07_unit_slope_tie_refuted :
  exists s x, den s <> 0 /\ Z.abs (den s) = Z.abs (num s) /\ seg_p2i s (seg_i2p s x) <> x.
Proof. exists (mkSeg 1 2 2 None None 0), 1. vm_compute. repeat split; discriminate. Qed.
Print Assumptions C07_unit_slope_tie_refuted.

Theorem C07_valid_internal_iff_in_limits : forall s x,
  valid_int (MLinear s) (CInt x) = true <-> ol_lower (slo s) x = true /\ ol_upper (shi s) x = true.
Proof. exact linear_valid_internal. Qed.
Print Assumptions C07_valid_internal_iff_in_limits.

Theorem C07_valid_physical_converts : forall s y,
  valid_phys (MLinear s) (CInt y) = true -> exists x, p2i (MLinear s) (CInt y) = COk (CInt x).
Proof. exact linear_valid_phys_converts. Qed.
Print Assumptions C07_valid_physical_converts.

(* a continuous, strictly increasing piecewise-linear method can always encode *)
Theorem C07_scale_linear_encodes : forall s segs y,
  0 < num s * den s -> continuous_increasing (s :: segs) ->
  valid_phys (MScaleLinear (s :: segs)) (CInt y) = true ->
  exists x, p2i (MScaleLinear (s :: segs)) (CInt y) = COk (CInt x).
Proof. exact scale_linear_encodes. Qed.
Print Assumptions C07_scale_linear_encodes.

Theorem C07_scale_linear_encodes_decreasing : forall s segs y,
  num s * den s < 0 -> continuous_decreasing (s :: segs) ->
  valid_phys (MScaleLinear (s :: segs)) (CInt y) = true ->
  exists x, p2i (MScaleLinear (s :: segs)) (CInt y) = COk (CInt x).
Proof. exact scale_linear_encodes_decreasing. Qed.
Print Assumptions C07_scale_linear_encodes_decreasing.

(* TAB-INTP: every internal value declared valid (between the extreme sample points) converts *)
Theorem C07_tabintp_valid_converts : forall pts x,
  (2 <= List.length pts)%nat ->
  valid_int (MTabIntp pts) (CInt x) = true -> exists y, i2p (MTabIntp pts) (CInt x) = COk (CInt y).
Proof. exact tabintp_valid_converts. Qed.
Print Assumptions C07_tabintp_valid_converts.

(* TEXTTABLE: a text without COMPU-INVERSE-VALUE is encoded by an internal value of its own scale -- limits of interval
   type OPEN are honoured --, is read back as that text when no other scale claims the value, and a text declared valid
   is encoded *)
Theorem C07_texttable_encodes_inside : forall scales pd idf t s x,
  filter (fun s => text_eqb (tconst s) t) scales = [s] -> tinv s = None ->
  p2i (MTextTable scales pd idf) (CText t) = COk (CInt x) -> tscale_applies s x = true.
Proof. exact texttable_encodes_inside. Qed.
Print Assumptions C07_texttable_encodes_inside.

Theorem C07_texttable_roundtrip : forall scales pd idf t s x,
  filter (fun s => text_eqb (tconst s) t) scales = [s] -> tinv s = None ->
  p2i (MTextTable scales pd idf) (CText t) = COk (CInt x) ->
  filter (fun s' => tscale_applies s' x) scales = [s] ->
  exists t', tconst s = Some t' /\ bytes_eqb t' t = true /\ i2p (MTextTable scales pd idf) (CInt x) = COk (CText t').
Proof. exact texttable_roundtrip. Qed.
Print Assumptions C07_texttable_roundtrip.

Theorem C07_texttable_valid_encodes : forall scales pd t s,
  filter (fun s => text_eqb (tconst s) t) scales = [s] ->
  valid_phys (MTextTable scales pd None) (CText t) = true ->
  exists x, p2i (MTextTable scales pd None) (CText t) = COk (CInt x).
Proof. exact texttable_valid_encodes. Qed.
Print Assumptions C07_texttable_valid_encodes.

Example C07_texttable_open_limit_example :
  let lim v t := Some (mkLimit (Some v) (Some t)) in
  let low := mkT (lim 0 IClosed) (lim 5 IClosed) (Some [108]) None in
  let high := mkT (lim 5 IOpen) (lim 10 IClosed) (Some [104]) None in
  let none := mkT (lim 20 IOpen) (lim 21 IOpen) (Some [110]) None in
  let m := MTextTable [low; high; none] None None in
  p2i m (CText [104]) = COk (CInt 6) /\ i2p m (CInt 6) = COk (CText [104]) /\ i2p m (CInt 5) = COk (CText [108]) /\
  p2i m (CText [110]) = CErr CEncode /\ valid_phys m (CText [110]) = false /\ valid_phys m (CText [104]) = true.
Proof. exact texttable_open_limit_example. Qed.
Print Assumptions C07_texttable_open_limit_example.

Theorem C07_nonvacuous :
  seg_i2p (mkSeg 1 3 2 None None 0) 3 = 5 /\ seg_p2i (mkSeg 1 3 2 None None 0) 5 = 3 /\
  rdiv 9 2 = 4 /\ rdiv 7 2 = 4 /\ rdiv (-9) 2 = -4 /\
  i2p (MTabIntp [(0, 0); (10, 45)]) (CInt 1) = COk (CInt 4) /\
  i2p (MTabIntp [(0, 0); (10, 45)]) (CInt 3) = COk (CInt 14).
Proof. exact compu_examples. Qed.
