(* C11 -- writing a database to PDX and loading it back preserves it (text layer, assembly,
   coverage obligation; the templates themselves are enumerated by the harness, not proved). *)
From Coq Require Import ZArith List Bool Permutation.
From OV Require Import Generated Base.Wire Model.Xml Proofs.XmlProofs.
Import ListNotations.
Open Scope Z_scope.

(* element text written through jinja's |e filter is read back unchanged, whatever it contains *)
Theorem C11_text_roundtrip : forall s, parse_text (escape s) = Some s.
Proof. exact text_roundtrip. Qed.
Print Assumptions C11_text_roundtrip.

Theorem C11_text_in_attr_roundtrip : forall s, parse_attr (escape s) = Some s.
Proof. exact text_in_attr_roundtrip. Qed.
Print Assumptions C11_text_in_attr_roundtrip.

(* attribute values written by make_xml_attrib are read back unchanged and cannot end the
   attribute or open a tag *)
Theorem C11_attr_roundtrip : forall s, parse_attr (attr_escape s) = Some s.
Proof. exact attr_roundtrip. Qed.
Print Assumptions C11_attr_roundtrip.

Theorem C11_attr_no_meta : forall s c, In c (attr_escape s) -> c <> 60 /\ c <> 34.
Proof. exact attr_escape_no_meta. Qed.
Print Assumptions C11_attr_no_meta.

(* the writer before the fix commit (value verbatim) does not have this property *)
Theorem C11_attr_verbatim_refuted : exists s, parse_attr (attr_verbatim s) <> Some s.
Proof. exact attr_verbatim_refuted. Qed.
Print Assumptions C11_attr_verbatim_refuted.

(* the database assembled from the same documents in another file order is the same (documents
   identified by distinct short names; lists compared sorted by short name) *)
Theorem C11_order_independent : forall fs fs',
  Permutation fs fs' -> NoDup (map fst fs) -> canon (assemble fs) = canon (assemble fs').
Proof. exact order_independent. Qed.
Print Assumptions C11_order_independent.

(* coverage obligation, regenerated from /repo on every run: every tag / attribute name which a
   from_et parser reads occurs in a template of the writer (or is a recorded finding) *)
Theorem C11_reads_covered : forallb (covered xml_writes xml_known_gaps) xml_reads = true.
Proof. vm_compute. reflexivity. Qed.
Print Assumptions C11_reads_covered.

Theorem C11_example :
  canon (assemble [(3, 30); (1, 10); (2, 20)]) = [(1, 10); (2, 20); (3, 30)] /\
  canon (assemble [(2, 20); (3, 30); (1, 10)]) = [(1, 10); (2, 20); (3, 30)] /\
  parse_text (escape [97; 38; 60; 62; 34; 39; 98]) = Some [97; 38; 60; 62; 34; 39; 98] /\
  attr_escape [34; 38] = e_quot ++ e_amp.
Proof. exact order_example. Qed.
Print Assumptions C11_example.
