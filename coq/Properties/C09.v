(* C09 -- a layer sees exactly the objects ODX value inheritance prescribes.
   Model: Model/Inherit.v (avail = HierarchyElement._compute_available_objects).
   [avail f H] is the view of the parents (one fuel step less); the theorems hold
   for every hierarchy H, every layer and every fuel, i.e. whatever the parents are. *)
From Coq Require Import ZArith List Bool Sorting.Permutation Sorting.Sorted.
From OV Require Import Base.Wire Generated Model.Inherit Proofs.InheritProofs Proofs.PriorityProofs Proofs.RoutingProofs Proofs.ConflictProofs Proofs.ComparamProofs Proofs.SortProofs.
Import ListNotations.
Open Scope Z_scope.

(* the layer-type priorities (regenerated from the sources on every run):
   shared data beats everything, the other four are strictly increasing *)
Theorem C09_priorities_ok :
  0 < prio TProtocol < prio TFuncGroup /\ prio TFuncGroup < prio TBaseVariant /\
  prio TBaseVariant < prio TEcuVariant /\ prio TEcuVariant < prio TEcuShared.
Proof. exact priorities_ok. Qed.
Print Assumptions C09_priorities_ok.

(* the exclusion lists of a PARENT-REF are applied to the right lists of the data dictionary (table regenerated
   from hierarchyelement.py on every run): NOT-INHERITED-DOPS to exactly the ten lists of DOP-BASE objects,
   NOT-INHERITED-TABLES to the tables *)
Theorem C09_exclusion_lists_routed : routing_ok ddd_routing = true.
Proof. exact exclusion_lists_routed. Qed.
Print Assumptions C09_exclusion_lists_routed.

(* no two visible objects share a short name *)
Theorem C09_names_unique : forall fuel H L os, avail fuel H L = IOk os -> NoDup (map o_name os).
Proof. exact avail_names_unique. Qed.
Print Assumptions C09_names_unique.

(* local definitions are visible and override everything inherited under that name *)
Theorem C09_local_override : forall fuel H L os n,
  avail fuel H L = IOk os -> In n (l_locals L) ->
  In (mkObj n (l_id L)) os /\ forall o, In o os -> o_name o = n -> o = mkObj n (l_id L).
Proof. exact avail_local_override. Qed.
Print Assumptions C09_local_override.

(* soundness: every visible object is local, or is visible in a parent, not excluded
   by that parent reference's NOT-INHERITED list and not overridden locally *)
Theorem C09_visible_is_local_or_inherited : forall f H L os o,
  avail (S f) H L = IOk os -> In o os ->
  (In (o_name o) (l_locals L) /\ o = mkObj (o_name o) (l_id L)) \/
  (~ In (o_name o) (l_locals L) /\
   exists p PL objs, In p (l_parents L) /\ find_layer (p_target p) H = Some PL /\
                     avail f H PL = IOk objs /\ In o objs /\ memZ (o_name o) (p_excl p) = false).
Proof. exact avail_origin. Qed.
Print Assumptions C09_visible_is_local_or_inherited.

(* completeness: every name a parent exposes (after exclusion) is visible *)
Theorem C09_inherited_names_visible : forall f H L os p PL objs o,
  avail (S f) H L = IOk os -> In p (l_parents L) -> find_layer (p_target p) H = Some PL ->
  avail f H PL = IOk objs -> In o objs -> memZ (o_name o) (p_excl p) = false ->
  exists o', In o' os /\ o_name o' = o_name o.
Proof. exact avail_complete. Qed.
Print Assumptions C09_inherited_names_visible.

(* a parent's own view does not depend on its children: [avail] of a layer is a
   function of the hierarchy below it only -- trivial in the pure model; the
   implementation side is checked by comparing every layer's views after all
   layers were finalised (correspondence). *)

Theorem C09_nonvacuous :
  let H1 := [mkLayer 0 TProtocol [] [1]; mkLayer 1 TBaseVariant [mkPref 0 []] []; mkLayer 2 TBaseVariant [mkPref 0 []] [];
             mkLayer 3 TEcuVariant [mkPref 1 []; mkPref 2 []] []] in
  let H2 := [mkLayer 0 TBaseVariant [] [1]; mkLayer 1 TBaseVariant [] [1]; mkLayer 2 TEcuVariant [mkPref 0 []; mkPref 1 []] []] in
  avail 5 H1 (mkLayer 3 TEcuVariant [mkPref 1 []; mkPref 2 []] []) = IOk [mkObj 1 0] /\
  avail 5 H2 (mkLayer 2 TEcuVariant [mkPref 0 []; mkPref 1 []] []) = IConflict.
Proof. exact inherit_examples. Qed.

(* WHICH object: an object seen under a name the layer does not define itself comes through a parent
   of maximal priority among all parents exposing that name (after exclusion), and every exposing
   parent of that same priority exposes the very same object -- so whenever two parents of equal,
   maximal priority expose different objects the result is not IOk (a conflict is reported) *)
Theorem C09_highest_priority_parent_wins : forall f H L os o,
  avail (S f) H L = IOk os -> In o os -> ~ In (o_name o) (l_locals L) ->
  exists via,
    (exists p PL objs, In p (l_parents L) /\ find_layer (p_target p) H = Some PL /\ avail f H PL = IOk objs /\
                       In o objs /\ memZ (o_name o) (p_excl p) = false /\ via = l_id PL) /\
    forall p PL objs o',
      In p (l_parents L) -> find_layer (p_target p) H = Some PL -> avail f H PL = IOk objs ->
      In o' objs -> o_name o' = o_name o -> memZ (o_name o) (p_excl p) = false ->
      layer_prio H (l_id PL) <= layer_prio H via /\
      (layer_prio H (l_id PL) = layer_prio H via -> obj_eqb o' o = true).
Proof. exact avail_priority. Qed.
Print Assumptions C09_highest_priority_parent_wins.

Theorem C09_priority_example :
  let H := [mkLayer 0 TEcuShared [] [1]; mkLayer 1 TBaseVariant [] [1];
            mkLayer 2 TEcuVariant [mkPref 1 []; mkPref 0 []] []] in
  avail 5 H (mkLayer 2 TEcuVariant [mkPref 1 []; mkPref 0 []] []) = IOk [mkObj 1 0].
Proof. exact priority_example. Qed.
Print Assumptions C09_priority_example.

(* WHEN a conflict is reported: only when it is real. Either the view of a parent is in conflict already,
   or two parent references expose (after exclusion) two different objects under one name which the
   layer does not define itself, through parents of the same priority. Together with the theorem above:
   a conflict is reported if and only if no admissible choice exists. *)
Theorem C09_conflict_only_when_real : forall f H L,
  avail (S f) H L = IConflict ->
  (exists p PL, In p (l_parents L) /\ find_layer (p_target p) H = Some PL /\ avail f H PL = IConflict) \/
  (exists p PL objs o p' PL' objs' o',
      In p (l_parents L) /\ find_layer (p_target p) H = Some PL /\ avail f H PL = IOk objs /\
      In o objs /\ memZ (o_name o) (p_excl p) = false /\
      In p' (l_parents L) /\ find_layer (p_target p') H = Some PL' /\ avail f H PL' = IOk objs' /\
      In o' objs' /\ memZ (o_name o') (p_excl p') = false /\
      o_name o = o_name o' /\ obj_eqb o o' = false /\
      layer_prio H (l_id PL) = layer_prio H (l_id PL') /\
      ~ In (o_name o) (l_locals L)).
Proof. exact conflict_is_real. Qed.
Print Assumptions C09_conflict_only_when_real.

(* the model's fuel (recursion depth) runs out only below a layer, never in the merge itself *)
Theorem C09_fuel_only_from_parents : forall f H L,
  avail (S f) H L = IFuel ->
  exists p PL, In p (l_parents L) /\ find_layer (p_target p) H = Some PL /\ avail f H PL = IFuel.
Proof. exact fuel_only_from_parents. Qed.
Print Assumptions C09_fuel_only_from_parents.

(* the parents are merged in descending order of priority, whatever the order of the PARENT-REFs *)
Theorem C09_parents_in_priority_order : forall H l,
  Permutation (sort_desc H l) l /\ StronglySorted (fun a b => prk H b <= prk H a) (sort_desc H l).
Proof. intros H l. split; [apply sort_desc_perm | apply sort_desc_sorted]. Qed.
Print Assumptions C09_parents_in_priority_order.
