(* C04 -- the encoder never silently misrepresents its input.
   PROVED HERE (atomic layer, every value of the model's value universe): a raw
   value is only produced for a representable input and determines it uniquely
   (acceptance implies representability), rejections are always the library's own
   error class, and an accepted value is read back unchanged. *)
From Coq Require Import ZArith List Bool.
From OV Require Import Base.Bytes Base.Wire Generated Model.Str Model.Codec Proofs.BytesProofs Proofs.AtomicProofs Proofs.CodecProps Proofs.FlatProofs Proofs.FlatEncodeProofs.
Import ListNotations.
Open Scope Z_scope.

Theorem C04_signed_acceptance_partial : forall z bl en hl raw,
  0 < bl -> (en = None \/ en = Some Enc2C \/ en = Some Enc1C \/ en = Some EncSM) ->
  raw_of (VInt z) bl BInt en hl = Ok raw ->
  0 <= raw < 2 ^ bl /\ value_of_raw raw bl BInt en hl = Ok (VInt z).
Proof. exact int_raw_roundtrip. Qed.
Print Assumptions C04_signed_acceptance_partial.

(* the case the hypothesis 0 < bl leaves out: without any bit, zero is the only signed value the encoder accepts
   (before the fix commit "a signed integer of zero bits accepted -1" the value -1 was accepted and dropped) *)
Theorem C04_signed_zero_bits : forall z en hl raw,
  (en = None \/ en = Some Enc2C \/ en = Some Enc1C \/ en = Some EncSM) ->
  raw_of (VInt z) 0 BInt en hl = Ok raw -> z = 0 /\ raw = 0.
Proof. exact int_raw_zero_bits. Qed.
Print Assumptions C04_signed_zero_bits.

Theorem C04_rejections_are_odx_errors : forall v bl bt en hl e,
  bt <> BF32 -> bt <> BF64 -> raw_of v bl bt en hl = Err e -> e = ERej.
Proof. exact raw_of_rejects_properly. Qed.
Print Assumptions C04_rejections_are_odx_errors.

Theorem C04_accepted_is_read_back : forall s v bl bt en hl s' raw lk,
  0 < bl -> 0 <= e_cur s -> 0 <= e_bit s -> bytes_ok (e_msg s) = true ->
  raw_of v bl bt en hl = Ok raw -> 0 <= raw < 2 ^ bl ->
  emplace_atomic s v bl bt en hl None = Ok s' ->
  extract_atomic (dview s' (e_cur s) (e_bit s) lk) bl bt en hl =
    (do v' <- value_of_raw raw bl bt en hl; Ok (v', mkD (e_msg s') 0 (e_cur s') 0 lk))
  /\ e_cur s' = e_cur s + nbytes_of bl (e_bit s) /\ bytes_ok (e_msg s') = true.
Proof. exact emplace_then_extract. Qed.
Print Assumptions C04_accepted_is_read_back.

(* the behaviour before the fix commit: 200 in 8 bits was accepted; the model of the
   fixed code rejects it, as well as -129 and one's complement -128 *)
Theorem C04_out_of_range_rejected :
  raw_of (VInt 200) 8 BInt None true = Err ERej /\ raw_of (VInt (-129)) 8 BInt (Some Enc2C) true = Err ERej
  /\ raw_of (VInt (-128)) 8 BInt (Some Enc1C) true = Err ERej /\ raw_of (VInt 128) 8 BInt (Some EncSM) true = Err ERej.
Proof. vm_compute. repeat split. Qed.
Print Assumptions C04_out_of_range_rejected.

(* ---------- message level (Proofs/FlatEncodeProofs.v), about the model's entry points ---------- *)
(* for every message which is a sequence of any number of CODED-CONST / VALUE parameters with implicit positions
   over STANDARD-LENGTH types (no floats, no bit mask, IDENTICAL compu method) and EVERY value handed to the encoder
   -- a dictionary with missing, unknown, ill-typed or out-of-range entries, or no dictionary at all -- the outcome is
   a PDU or the library's own error class: no foreign exception, no fuel exhaustion *)
Theorem C04_flat_rejections_are_library_errors : forall fl v,
  (forall x, In x fl -> fnf x) -> enc_outcome_ok (encode_msg (map mkp fl) None v).
Proof. exact flat_encode_outcome. Qed.
Print Assumptions C04_flat_rejections_are_library_errors.

(* the property itself for messages of signed (2C, 1C, SM) and unsigned integer parameters of any bit length and
   byte order: EVERY value is either rejected with the library's error, or it is a dictionary and the PDU has the
   described length and decodes to exactly the constants and the values the caller gave -- nothing is wrapped,
   truncated, padded or dropped *)
Theorem C04_flat_accept_or_reject : forall fl v,
  (forall x, In x fl -> fnum x) -> NoDup (map fname fl) ->
  encode_msg (map mkp fl) None v = Err ERej \/
  exists msg kv, v = VDict kv /\ encode_msg (map mkp fl) None v = Ok (msg, false) /\
                 decode_msg (map mkp fl) msg = Ok (VDict (map (fun x => (fname x, given x kv)) fl)) /\
                 blen msg = fold_right (fun x a => fbytes x + a) 0 fl.
Proof. exact flat_accept_or_reject. Qed.
Print Assumptions C04_flat_accept_or_reject.

(* premises satisfiable; acceptance and each kind of rejection occur *)
Example C04_flat_example :
  let fl := [mkF [115] 8 BUint None true BUint (Some (VInt 34)); mkF [97] 12 BInt (Some Enc2C) false BInt None] in
  (forall x, In x fl -> fnum x) /\ NoDup (map fname fl) /\
  encode_msg (map mkp fl) None (VDict [([97], VInt (-2))]) = Ok ([34; 254; 15], false) /\
  encode_msg (map mkp fl) None (VDict [([97], VInt 2048)]) = Err ERej /\
  encode_msg (map mkp fl) None (VDict [([97], VStr [65])]) = Err ERej /\
  encode_msg (map mkp fl) None (VDict []) = Err ERej /\
  encode_msg (map mkp fl) None (VDict [([97], VInt 1); ([98], VInt 1)]) = Err ERej /\
  encode_msg (map mkp fl) None (VInt 5) = Err ERej.
Proof. exact accept_or_reject_example. Qed.
Print Assumptions C04_flat_example.
