(* C12 -- ISO-TP reassembly returns exactly the transmitted telegrams.
   Only statements, closed by `exact`, and Print Assumptions. *)
From Coq Require Import ZArith List Bool.
From OV Require Import Base.Wire Generated Model.IsoTp Proofs.IsoTpProofs.
Import ListNotations.
Open Scope Z_scope.

(* For every configured set of receive ids, EVERY frame sequence fs (any
   interleaving of any number of ids, flow-control frames anywhere, frames of
   unknown ids anywhere): if the non-flow-control frames of id a are the
   ISO 15765-2 segmentation (any frame size >= 8 per transfer, any padding, any
   telegram length from 1 to 2^32 - 1: above 4095 bytes the first frame announces the
   length as 32 bit number, ISO 15765-2:2016) of the transfers xs, then the reassembler
   reports for id a exactly the telegrams of xs, in order, each once. *)
Theorem C12_interleaved :
  forall (rx_ids : list Z) (fs : list frame) (a : Z) (xs : list transfer),
    In a rx_ids -> Forall tr_ok xs ->
    filter (fun d => negb (is_fc d)) (map snd (filter (fun f : frame => fst f =? a) fs))
      = flat_map tr_frames xs ->
    tele_of a (telegrams rx_ids fs) = map (fun x => (a, tr_tele x)) xs.
Proof. exact reassembly. Qed.
Print Assumptions C12_interleaved.

(* what is reported for an id depends only on the frames of that id *)
Theorem C12_frame_locality :
  forall (a : Z) (rx_ids : list Z) (fs : list frame),
    tele_of a (telegrams rx_ids fs)
    = tele_of a (telegrams rx_ids (filter (fun f => fst f =? a) fs)).
Proof. exact projection. Qed.
Print Assumptions C12_frame_locality.

(* one transfer, from any slot state: exactly its telegram *)
Theorem C12_single_transfer :
  forall (s : slot) (fsz : Z) (t pad : list Z),
    8 <= fsz -> 1 <= blen t < 4294967296 ->
    exists s', slot_run s (segment fsz t pad) = (s', [t]).
Proof. exact seg_run. Qed.
Print Assumptions C12_single_transfer.

(* flow-control frames never change what is reported *)
Theorem C12_flow_control_neutral :
  forall (ds : list (list Z)) (s : slot),
    slot_run s (filter (fun d => negb (is_fc d)) ds) = slot_run s ds.
Proof. exact slot_run_filter_fc. Qed.
Print Assumptions C12_flow_control_neutral.

(* the active decoder answers every (well-formed) first frame on a configured id
   with exactly one clear-to-send flow-control frame on the paired transmit id *)
Theorem C12_active_fc :
  forall tx psize pval m as_ rx d r i,
    index_of rx (ids m) 0 = Some i -> is_ff d = true ->
    exists ts cbs, hd_error (run_trace tx psize pval m as_ ((rx, d) :: r))
    = Some (ts, cbs, [(nth i tx 0, pad_to psize pval
                         [isotp_frame_type_flow_control * 16 + isotp_flow_control_continue; 255; 0])]).
Proof. exact active_ff. Qed.
Print Assumptions C12_active_fc.

(* what the specification side produces: short telegrams in one frame, up to 4095 bytes a first frame with a 12 bit
   length, above that a first frame with a zero 12 bit length and the length as 32 bit number *)
Theorem C12_segmentation_defs : forall fsz t pad,
  segment fsz t pad =
    let n := blen t in
    if n <=? 7 then [ n :: t ++ pad ]
    else if n <=? fsz - 2 then [ 0 :: n :: t ++ pad ]
    else if n <=? 4095 then
         ((16 + n / 256) :: (n mod 256) :: take (fsz - 2) t) :: cfs (List.length t) fsz 1 (drop (fsz - 2) t) pad
    else (16 :: 0 :: be4 n ++ take (fsz - 6) t) :: cfs (List.length t) fsz 1 (drop (fsz - 6) t) pad.
Proof. reflexivity. Qed.
Print Assumptions C12_segmentation_defs.

(* a first frame with the 32 bit length opens a transfer of that length whose first bytes are those behind the length *)
Theorem C12_long_first_frame : forall s n pl,
  0 <= n < 4294967296 ->
  exists c, slot_step s (16 :: 0 :: be4 n ++ pl) = (mkSlot n (Some pl) 0, [], c).
Proof. exact ff_esc_step. Qed.
Print Assumptions C12_long_first_frame.

Theorem C12_nonvacuous :
  segment 8 [1;2;3;4;5;6;7;8;9;10] [170] = [[16;10;1;2;3;4;5;6]; [33;7;8;9;10;170]]
  /\ telegrams [2024] (map (fun d => (2024, d)) (segment 8 [1;2;3;4;5;6;7;8;9;10] [170]))
     = [(2024, [1;2;3;4;5;6;7;8;9;10])].
Proof. exact example_segment. Qed.
