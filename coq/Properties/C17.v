(* C17 -- strict mode is honoured everywhere and lenient mode changes nothing valid. *)
From Coq Require Import ZArith List Bool.
From OV Require Import Generated Model.Codec Proofs.SoftProofs.
Import ListNotations.
Open Scope Z_scope.

(* for every program built from results, odxraise-style soft checks and hard raises:
   success in strict mode implies the identical result (and an empty log) in lenient mode *)
Theorem C17_lenient_conservative : forall (A : Type) (p : prog A) (a : A),
  fst (run true p) = Ok a -> run false p = (Ok a, 0%nat).
Proof. exact @lenient_conservative. Qed.
Print Assumptions C17_lenient_conservative.

(* a problem raised in strict mode comes from a hard raise or is downgraded to a log entry *)
Theorem C17_strict_error_is_logged : forall (A : Type) (p : prog A) (e : err),
  fst (run true p) = Err e ->
  exists k, p = Hard e \/ (exists q, p = Soft e q /\ snd (run false p) = S k).
Proof. exact @strict_error_is_logged. Qed.
Print Assumptions C17_strict_error_is_logged.

(* the mode is read at each call: switching to lenient and back restores the strict result *)
Theorem C17_switch_is_read_at_call : forall (A : Type) (p : prog A) (h : list (step A)) (m : bool),
  run_history m (Call p :: SetMode false :: Call p :: SetMode true :: Call p :: h)
  = fst (run m p) :: fst (run false p) :: fst (run true p) :: run_history true h.
Proof. exact @history_restores. Qed.
Print Assumptions C17_switch_is_read_at_call.

(* finite obligation regenerated from the sources on every run: no module of the
   package binds the value of strict_mode at import time (translator: translate.py,
   which also checks that odxraise raises exactly when the flag is set at call time) *)
Theorem C17_no_import_time_binding : strict_mode_import_bindings = 0.
Proof. reflexivity. Qed.
Print Assumptions C17_no_import_time_binding.
