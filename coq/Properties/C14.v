(* C14 -- variant identification selects the first candidate whose pattern matches.
   All theorems are quantified over the deterministic ECU (a function from requests to
   responses) and over the oracle [matchf] deciding whether a decoded response
   satisfies a matching parameter. *)
From Coq Require Import ZArith List Bool.
From OV Require Import Base.Wire Model.Variant Proofs.VariantProofs.
Import ListNotations.
Open Scope Z_scope.

Theorem C14_first_match : forall ecu matchf use_cache (vs : list variant),
  fst (request_loop ecu matchf use_cache vs) = first_ok ecu matchf vs 0.
Proof. exact first_match. Qed.
Print Assumptions C14_first_match.

Theorem C14_cache_independent : forall ecu matchf (vs : list variant),
  fst (request_loop ecu matchf true vs) = fst (request_loop ecu matchf false vs).
Proof. exact cache_independent. Qed.
Print Assumptions C14_cache_independent.

Theorem C14_only_ident_requests : forall ecu matchf use_cache (vs : list variant),
  incl (snd (request_loop ecu matchf use_cache vs)) (reqs_of vs).
Proof. exact only_ident_requests. Qed.
Print Assumptions C14_only_ident_requests.

Theorem C14_cache_no_repeat : forall ecu matchf (vs : list variant),
  NoDup (snd (request_loop ecu matchf true vs)).
Proof. exact cache_no_repeat. Qed.
Print Assumptions C14_cache_no_repeat.

Theorem C14_nonvacuous :
  let ecu := fun k => if k =? 1 then 10 else 20 in
  let matchf := fun p r => (p =? r) in
  request_loop ecu matchf true [[[mkMP 1 11]]; [[mkMP 1 10; mkMP 2 20]]] = (Some 1%nat, [1; 2]).
Proof. exact variant_example. Qed.
