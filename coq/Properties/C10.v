(* C10 -- every reference resolves to the object it names, or loading fails. *)
From Coq Require Import ZArith List Bool.
From OV Require Import Base.Wire Model.Inherit Model.Links Proofs.LinksProofs.
Import ListNotations.
Open Scope Z_scope.

(* the link database holds, per fragment, the object carrying the id (ids unique per fragment) *)
Theorem C10_database_holds_the_named_object : forall es e f id,
  In e es -> matches e f id = true ->
  (forall x, In x es -> matches x f id = true -> x = e) ->
  db_get (update true [] es) f id = Some (e_obj e).
Proof. exact build_unique. Qed.
Print Assumptions C10_database_holds_the_named_object.

(* an ODXLINK reference binds to the object which the innermost of its fragments binding the id
   holds -- for a DOCREF reference that is the referenced fragment alone *)
Theorem C10_resolve_innermost : forall db r o,
  resolve db r = Some o <->
  exists outer f inner, r_docs r = outer ++ f :: inner /\ db_get db f (r_id r) = Some o /\
                        forall f', In f' inner -> db_get db f' (r_id r) = None.
Proof. exact resolve_innermost. Qed.
Print Assumptions C10_resolve_innermost.

Theorem C10_docref_scopes : forall db id f, resolve db (mkRef id [f]) = db_get db f id.
Proof. exact resolve_docref. Qed.
Print Assumptions C10_docref_scopes.

(* a reference is unresolvable exactly if none of its fragments binds the id; a typed reference
   binds to nothing but what resolve finds, and only if that has the expected kind *)
Theorem C10_unresolvable : forall db r,
  resolve db r = None <-> forall f, In f (r_docs r) -> db_get db f (r_id r) = None.
Proof. exact resolve_none. Qed.
Print Assumptions C10_unresolvable.

Theorem C10_typed : forall kind_of db r expected o,
  resolve_typed kind_of db r expected = ROk o <->
  resolve db r = Some o /\ (expected = [] \/ memZ (kind_of o) expected = true).
Proof. exact resolve_typed_ok. Qed.
Print Assumptions C10_typed.

(* IMPORT-REFs: imported ids become visible in the fragments of the importing layer, never shadow
   an id bound there, and leave every other fragment as it was; only shared-data layers import *)
Theorem C10_import_visible : forall kind_of ls db L d m f id o,
  ll_imports L <> [] -> imported kind_of ls db (ll_imports L) [] = Some m ->
  layer_db kind_of ls db L = Some d ->
  aget id m = Some o -> memZ f (ll_frags L) = true -> db_get db f id = None ->
  db_get d f id = Some o.
Proof. exact import_visible. Qed.
Print Assumptions C10_import_visible.

Theorem C10_import_never_shadows : forall kind_of ls db L d f id o,
  layer_db kind_of ls db L = Some d -> db_get db f id = Some o -> db_get d f id = Some o.
Proof. exact import_never_shadows. Qed.
Print Assumptions C10_import_never_shadows.

Theorem C10_import_scoped : forall kind_of ls db L d f id,
  layer_db kind_of ls db L = Some d -> memZ f (ll_frags L) = false -> db_get d f id = db_get db f id.
Proof. exact import_scoped. Qed.
Print Assumptions C10_import_scoped.

Theorem C10_import_only_shared_data : forall kind_of ls db imps acc m r,
  imported kind_of ls db imps acc = Some m -> In r imps ->
  exists o IL, resolve db r = Some o /\ find_ll o ls = Some IL /\ ll_esd IL = true.
Proof. exact imported_esd. Qed.
Print Assumptions C10_import_only_shared_data.

(* a short-name reference binds to the one element of its context carrying the name (and the
   expected type), in an explicit list as well as in the inherited view of a layer *)
Theorem C10_snref_unique : forall name items expected o,
  resolve_snref name items expected = SOk o ->
  exists x, In x items /\ it_name x = name /\ it_obj x = o /\
            forall y, In y items -> it_name y = name -> y = x.
Proof. exact resolve_snref_unique. Qed.
Print Assumptions C10_snref_unique.

Theorem C10_snref_in_view : forall hs lid cats name expected x,
  resolve_in_view hs lid cats name expected = VOk x ->
  exists os, view hs cats lid = IOk os /\ In x os /\ v_name x = name /\
             (forall y, In y os -> v_name y = name -> y = x) /\
             (expected = [] \/ memZ (v_cat x) expected = true).
Proof. exact resolve_in_view_ok. Qed.
Print Assumptions C10_snref_in_view.

(* strict loading: success means every reference is bound as above; one bad reference fails it *)
Theorem C10_load_sound : forall kind_of ls es refs hs sns probes rb sb,
  load kind_of ls es refs hs sns probes = Some (rb, sb) ->
  (forall q, In q refs -> exists o, bind_ref kind_of ls (update true [] es) q = Some (ROk o)) /\
  (forall s, In s sns -> exists x, bind_loaded hs s = VOk x) /\
  (forall p, In p probes -> exists os, view hs (snd p) (fst p) = IOk os).
Proof. exact load_sound. Qed.
Print Assumptions C10_load_sound.

Theorem C10_bad_reference_fails_loading : forall kind_of ls es refs hs sns probes q,
  In q refs -> is_rok (bind_ref kind_of ls (update true [] es) q) = false ->
  load kind_of ls es refs hs sns probes = None.
Proof. exact load_fails_on_bad_ref. Qed.
Print Assumptions C10_bad_reference_fails_loading.

Theorem C10_bad_snref_fails_loading : forall kind_of ls es refs hs sns probes s,
  In s sns -> is_vok (bind_loaded hs s) = false ->
  load kind_of ls es refs hs sns probes = None.
Proof. exact load_fails_on_bad_snref. Qed.
Print Assumptions C10_bad_snref_fails_loading.

(* retarget_snrefs(V) rebinds the references of V and its ancestors to V's view, nothing else *)
Theorem C10_retarget_rebinds : forall hs parents V s,
  In (sn_owner s) (ancestors (List.length parents) parents V) ->
  bind_retargeted hs parents V s = resolve_in_view hs V (sn_cats s) (sn_name s) (sn_expected s).
Proof. exact retarget_rebinds. Qed.
Print Assumptions C10_retarget_rebinds.

Theorem C10_retarget_keeps_others : forall hs parents V s,
  ~ In (sn_owner s) (ancestors (List.length parents) parents V) ->
  bind_retargeted hs parents V s = bind_loaded hs s.
Proof. exact retarget_keeps_others. Qed.
Print Assumptions C10_retarget_keeps_others.

Theorem C10_example :
  let es := [mkE 7 [1; 11] 100; mkE 7 [2; 21] 200; mkE 8 [2; 22] 300] in
  let db := update true [] es in
  resolve db (mkRef 7 [1; 11]) = Some 100 /\ resolve db (mkRef 7 [2; 21]) = Some 200 /\
  resolve db (mkRef 7 [2; 22]) = Some 200 /\ resolve db (mkRef 7 [1]) = Some 100 /\
  resolve db (mkRef 9 [2; 22]) = None /\
  let E := mkLL 500 [1; 12] true [(9, 400); (7, 401)] [] in
  let A := mkLL 501 [2; 22] false [(8, 300)] [mkRef 50 [1]] in
  let db2 := update true db [mkE 50 [1; 12] 500] in
  let kind := fun o => if o =? 500 then 10 else 1 in
  match layer_db kind [E; A] db2 A with
  | Some d => resolve d (mkRef 9 [2; 22]) = Some 400 /\ resolve d (mkRef 7 [2; 22]) = Some 401 /\
              resolve d (mkRef 7 [2; 21]) = Some 200 /\ resolve db2 (mkRef 9 [2; 22]) = None
  | None => False
  end.
Proof. exact links_example. Qed.
Print Assumptions C10_example.
