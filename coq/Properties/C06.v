(* C06 -- messages are attributed to exactly the services whose description matches. *)
From Coq Require Import ZArith List Bool.
From OV Require Import Base.Bytes Base.Wire Model.Codec Model.Dispatch Proofs.DispatchProofs.
Import ListNotations.
Open Scope Z_scope.

(* the prefix tree, for every set of (prefix, service) entries and every message: a
   service is a candidate exactly if it was filed under a NON-EMPTY prefix of the
   message.  (The "non-empty" is the recorded finding 'empty-constant-prefix':
   the root of the tree is never inspected.) *)
Theorem C06_trie_sound_complete : forall (es : list (list Z * Z)) (msg : list Z) (s : Z),
  In s (walk (build es) msg) <-> exists p, In (p, s) es /\ p <> [] /\ is_prefix p msg = true.
Proof. exact trie_sound_complete. Qed.
Print Assumptions C06_trie_sound_complete.

(* the layer reports an interpretation for exactly the candidates which match (by one
   of their own coding objects or through a global negative response) ... *)
Theorem C06_decode_exact : forall L msg cands out,
  all_messages L cands msg = Ok out ->
  forall id, In id (map (fun x => fst (fst x)) out) <-> In id cands /\ contributes L msg id.
Proof. exact decode_exact. Qed.
Print Assumptions C06_decode_exact.

(* ... and raises a decode error exactly if there is none *)
Theorem C06_error_iff_no_match : forall L cands msg out,
  all_messages L cands msg = Ok out ->
  (layer_decode_cands L cands msg = Err EDecode <-> forall id, In id cands -> ~ contributes L msg id).
Proof. exact decode_error_iff_none. Qed.
Print Assumptions C06_error_iff_no_match.

(* the finding as a theorem about the model: an entry filed under the empty prefix is never found *)
Theorem C06_empty_prefix_refuted :
  exists es msg s, In ([], s) es /\ ~ In s (walk (build es) msg).
Proof. exists [([], 3)], [5], 3. split; [now left | vm_compute; tauto]. Qed.
Print Assumptions C06_empty_prefix_refuted.

Theorem C06_nonvacuous :
  walk (build [([34], 1); ([34; 1], 2); ([], 3); ([98], 1)]) [34; 1; 7] = [1; 2].
Proof. exact trie_example. Qed.
