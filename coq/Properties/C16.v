(* C16 -- named item lists keep their list and name views consistent.
   Only statements, closed by `exact`, and Print Assumptions. *)
From Coq Require Import ZArith List Bool Permutation.
From OV Require Import Base.Wire Generated Model.NamedList Proofs.NamedListProofs.
Import ListNotations.
Open Scope Z_scope.

(* every state reachable by any history of append / insert / extend / remove /
   pop / clear / copy / __copy__ / deepcopy / pickle operations satisfies the
   invariant: names and list hold the same objects with the same multiplicity,
   names are pairwise distinct, never an attribute of the list class, and each
   is the item's identifier-safe key or that key with a numeric suffix *)
Theorem C16_inv_reachable : forall ops : list op, Inv (run true ops init).
Proof. intros ops. exact (run_inv ops init inv_init). Qed.
Print Assumptions C16_inv_reachable.

(* every item of the list is reachable under exactly as many names as it has
   occurrences in the list (one each), and no name refers to anything else *)
Theorem C16_named_exactly_once : forall (ops : list op) (x : item),
  let s := run true ops init in
  count_occ item_eq_dec (map snd (names s)) x = count_occ item_eq_dec (items s) x.
Proof. intros ops x. exact (count_names _ item_eq_dec x (run_inv ops init inv_init)). Qed.
Print Assumptions C16_named_exactly_once.

(* lookup by key / attribute returns exactly the binding of the name view *)
Theorem C16_lookup : forall (ops : list op) (k : name) (x : item),
  let s := run true ops init in
  get (names s) k = Some x <-> In (k, x) (names s).
Proof.
  intros ops k x. exact (get_In _ k x (proj1 (proj2 (run_inv ops init inv_init)))).
Qed.
Print Assumptions C16_lookup.

(* names never shadow the list's own attributes (table regenerated from source) *)
Theorem C16_no_shadow : forall (ops : list op) (k : name) (x : item),
  In (k, x) (names (run true ops init)) -> ~ In k reserved /\ wf_key k x.
Proof.
  intros ops k x H.
  destruct (proj2 (proj2 (run_inv ops init inv_init)) k x H) as [A B].
  split; [now apply mem_name_false | exact B].
Qed.
Print Assumptions C16_no_shadow.

(* the uniquification loop of the real code terminates: the model's fuel is
   never exhausted in a reachable state *)
Theorem C16_never_out_of_fuel : forall (ops : list op) (o : op),
  snd (step true (run true ops init) o) <> OOutOfFuel.
Proof. intros ops o. exact (step_no_fuel _ o (run_inv ops init inv_init)). Qed.
Print Assumptions C16_never_out_of_fuel.

(* the behaviour before the fix commit is refuted: an item stays in the list
   without a name *)
Theorem C16_delete_by_equality_refuted :
  exists ops, let s := run false ops init in
    List.length (items s) = 1%nat /\ List.length (names s) = 0%nat.
Proof. exists old_witness. exact old_remove_breaks. Qed.
Print Assumptions C16_delete_by_equality_refuted.

Theorem C16_nonvacuous :
  let a1 := mkItem 1 [97] 0 in let a2 := mkItem 2 [97] 0 in let c := mkItem 3 [99;111;112;121] 0 in
  map fst (names (run true [OpAppend a1; OpAppend a2; OpAppend c; OpRemove a2; OpAppend a1] init))
  = [[97;95;50]; [99;111;112;121;95;50]; [97]].
Proof. exact example_history. Qed.
