(* C15 -- communication parameters resolve to the most specific definition. *)
From Coq Require Import ZArith List Bool Lia Sorting.Permutation Sorting.Sorted.
From OV Require Import Base.Bytes Base.Wire Generated Model.Inherit Proofs.InheritProofs Proofs.ComparamProofs Proofs.SortProofs.
Import ListNotations.
Open Scope Z_scope.

(* looking a parameter up by name and protocol returns the protocol specific
   definition; the generic one only if no specific definition of that name exists *)
Theorem C15_lookup_specific_first : forall S cps name p c,
  get_comparam S cps name (Some p) = Some c ->
  bytes_eqb (cp_name S c) name = true /\
  (cp_proto c = Some p \/
   (cp_proto c = None /\
    forall c', In c' cps -> bytes_eqb (cp_name S c') name = true -> cp_proto c' <> Some p)).
Proof. exact lookup_specific_first. Qed.
Print Assumptions C15_lookup_specific_first.

(* values fall back to the default of the parameter specification *)
Theorem C15_value_default : forall S c s,
  find_spec (cp_spec c) S = Some s -> sp_complex s = false -> cp_value c = [] ->
  get_value S c = Some (sp_default s).
Proof. exact value_default. Qed.
Print Assumptions C15_value_default.

Theorem C15_value_explicit : forall S c s x v,
  find_spec (cp_spec c) S = Some s -> sp_complex s = false -> cp_value c = x :: v ->
  get_value S c = Some (x :: v).
Proof. exact value_explicit. Qed.
Print Assumptions C15_value_explicit.

(* the behaviour before the fix commit (first hit in dictionary order) is refuted by
   the model of the old lookup: a generic entry listed first shadowed the specific one *)
Theorem C15_first_hit_refuted :
  let S := [mkSpec 1 [66] [] false []] in
  let cps := [mkCp 1 None [49] [] 1; mkCp 1 (Some 7) [50] [] 2] in
  option_map cp_tag (hd_error (filter (fun c => match cp_proto c with None => true | Some q => q =? 7 end)
                                      (filter (fun c => bytes_eqb (cp_name S c) [66]) cps))) = Some 1
  /\ option_map cp_tag (get_comparam S cps [66] (Some 7)) = Some 2.
Proof. vm_compute. split; reflexivity. Qed.
Print Assumptions C15_first_hit_refuted.

(* ---------- override through the hierarchy, for every hierarchy and layer ---------- *)
(* a layer never holds two parameters for one (specification, protocol) key *)
Theorem C15_keys_unique : forall f H L, NoDup (map ckey (comparams f H L)).
Proof. exact comparams_keys_unique. Qed.
Print Assumptions C15_keys_unique.

(* a key defined by the layer itself resolves to its own (last) definition, whatever the parents define *)
Theorem C15_local_definition_wins : forall f H L k c,
  last_with k (cl_cps L) = Some c -> kget k (comparams (S f) H L) = Some c.
Proof. exact comparams_local_wins. Qed.
Print Assumptions C15_local_definition_wins.

(* a key the layer does not define resolves as in the dictionary inherited from its parents, which are
   folded in ascending priority order: the parent processed last which knows the key wins, a parent
   which does not know the key changes nothing *)
Theorem C15_inherited_when_not_local : forall f H L k,
  last_with k (cl_cps L) = None ->
  kget k (comparams (S f) H L) =
  kget k (fold_left (inherit_step f H) (sort_asc (map as_layer H) (cl_parents L)) []).
Proof. exact comparams_inherited. Qed.
Print Assumptions C15_inherited_when_not_local.

Theorem C15_last_parent_wins : forall f H k ps d p PL c,
  find_cl (p_target p) H = Some PL -> last_with k (comparams f H PL) = Some c ->
  kget k (fold_left (inherit_step f H) (ps ++ [p]) d) = Some c.
Proof. exact inherited_last_parent_wins. Qed.
Print Assumptions C15_last_parent_wins.

Theorem C15_ignorant_parent_skipped : forall f H k ps d p,
  (forall PL, find_cl (p_target p) H = Some PL -> last_with k (comparams f H PL) = None) ->
  kget k (fold_left (inherit_step f H) (ps ++ [p]) d) = kget k (fold_left (inherit_step f H) ps d).
Proof. exact inherited_skips_ignorant_parent. Qed.
Print Assumptions C15_ignorant_parent_skipped.

(* the parents are folded in ascending order of the priority of their layer type: the order is a sorted
   permutation of the PARENT-REFs, whatever their order in the document *)
Theorem C15_parents_in_priority_order : forall H l,
  Permutation (sort_asc H l) l /\ StronglySorted (fun a b => prk H a <= prk H b) (sort_asc H l).
Proof. intros H l. split; [apply sort_asc_perm | apply sort_asc_sorted]. Qed.
Print Assumptions C15_parents_in_priority_order.

(* hence: a key which the layer does not define itself resolves to the definition of the parent p,
   provided every other parent which knows the key is of strictly lower priority (or refers to the same
   layer) -- independent of the order of the PARENT-REFs and of what lower-priority parents define *)
Theorem C15_highest_priority_parent_wins : forall f H L k p PL c,
  last_with k (cl_cps L) = None ->
  In p (cl_parents L) ->
  find_cl (p_target p) H = Some PL -> last_with k (comparams f H PL) = Some c ->
  (forall q, In q (cl_parents L) -> knows f H k q ->
             p_target q = p_target p \/ prk (map as_layer H) q < prk (map as_layer H) p) ->
  kget k (comparams (S f) H L) = Some c.
Proof. exact comparams_highest_priority_parent_wins. Qed.
Print Assumptions C15_highest_priority_parent_wins.

(* a key known neither locally nor to any parent is not available in the layer *)
Theorem C15_unknown_key : forall f H L k,
  last_with k (cl_cps L) = None -> (forall q, In q (cl_parents L) -> ~ knows f H k q) ->
  kget k (comparams (S f) H L) = None.
Proof. exact comparams_unknown_key. Qed.
Print Assumptions C15_unknown_key.

(* the premises of C15_highest_priority_parent_wins are met by the hierarchy of the example below: the
   ECU variant V lists the protocol first and the base variant second; both know the key (1, None) *)
Example C15_highest_priority_example :
  let P := mkCL 0 TProtocol [] [mkCp 1 None [10] [] 1; mkCp 1 (Some 7) [11] [] 2] in
  let B := mkCL 1 TBaseVariant [mkPref 0 []] [mkCp 1 None [20] [] 3] in
  let V := mkCL 2 TEcuVariant [mkPref 1 []; mkPref 0 []] [mkCp 2 None [30] [] 4] in
  let H := [P; B; V] in
  option_map cp_tag (kget (1, None) (comparams 4 H V)) = Some 3.
Proof.
  intros P B V H.
  rewrite (C15_highest_priority_parent_wins 3 H V (1, None) (mkPref 1 []) B (mkCp 1 None [20] [] 3)).
  - reflexivity.
  - reflexivity.
  - left. reflexivity.
  - reflexivity.
  - vm_compute. reflexivity.
  - intros q [E|[E|[]]] _; subst q; [left; reflexivity | right; vm_compute; reflexivity].
Qed.
Print Assumptions C15_highest_priority_example.

Theorem C15_override_example :
  let P := mkCL 0 TProtocol [] [mkCp 1 None [10] [] 1; mkCp 1 (Some 7) [11] [] 2] in
  let B := mkCL 1 TBaseVariant [mkPref 0 []] [mkCp 1 None [20] [] 3] in
  let V := mkCL 2 TEcuVariant [mkPref 0 []; mkPref 1 []] [mkCp 2 None [30] [] 4] in
  let H := [P; B; V] in
  map cp_tag (comparams 4 H V) = [3; 2; 4] /\
  option_map cp_tag (kget (1, None) (comparams 4 H V)) = Some 3.
Proof. exact comparam_example. Qed.
Print Assumptions C15_override_example.
