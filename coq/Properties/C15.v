(* C15 -- communication parameters resolve to the most specific definition. *)
From Coq Require Import ZArith List Bool.
From OV Require Import Base.Bytes Base.Wire Generated Model.Inherit Proofs.InheritProofs.
Import ListNotations.
Open Scope Z_scope.

(* looking a parameter up by name and protocol returns the protocol specific
   definition; the generic one only if no specific definition of that name exists *)
Theorem C15_lookup_specific_first : forall S cps name p c,
  get_comparam S cps name (Some p) = Some c ->
  bytes_eqb (cp_name S c) name = true /\
  (cp_proto c = Some p \/
   (cp_proto c = None /\
    forall c', In c' cps -> bytes_eqb (cp_name S c') name = true -> cp_proto c' <> Some p)).
Proof. exact lookup_specific_first. Qed.
Print Assumptions C15_lookup_specific_first.

(* values fall back to the default of the parameter specification *)
Theorem C15_value_default : forall S c s,
  find_spec (cp_spec c) S = Some s -> sp_complex s = false -> cp_value c = [] ->
  get_value S c = Some (sp_default s).
Proof. exact value_default. Qed.
Print Assumptions C15_value_default.

Theorem C15_value_explicit : forall S c s x v,
  find_spec (cp_spec c) S = Some s -> sp_complex s = false -> cp_value c = x :: v ->
  get_value S c = Some (x :: v).
Proof. exact value_explicit. Qed.
Print Assumptions C15_value_explicit.

(* the behaviour before the fix commit (first hit in dictionary order) is refuted by
   the model of the old lookup: a generic entry listed first shadowed the specific one *)
Theorem C15_first_hit_refuted :
  let S := [mkSpec 1 [66] [] false []] in
  let cps := [mkCp 1 None [49] [] 1; mkCp 1 (Some 7) [50] [] 2] in
  option_map cp_tag (hd_error (filter (fun c => match cp_proto c with None => true | Some q => q =? 7 end)
                                      (filter (fun c => bytes_eqb (cp_name S c) [66]) cps))) = Some 1
  /\ option_map cp_tag (get_comparam S cps [66] (Some 7)) = Some 2.
Proof. vm_compute. split; reflexivity. Qed.
Print Assumptions C15_first_hit_refuted.
