(* Wire protocol between the Python harness and the executable models.
   A case is a nested list of integers ("tok"); on the wire it is a flat
   list of Z:  0 = open list, 1 = close list, z+2 = atom z (z >= 0),
   z = atom z (z < 0).  The harness (harness/wire.py) mirrors this. *)
From Coq Require Import ZArith List Bool.
Import ListNotations.
Open Scope Z_scope.

Inductive tok : Type :=
| TZ (z : Z)
| TL (l : list tok).

Definition atom_enc (z : Z) : Z := if z <? 0 then z else z + 2.
Definition atom_dec (t : Z) : Z := if t <? 0 then t else t - 2.

(* serialisation *)
Fixpoint ser (t : tok) : list Z :=
  match t with
  | TZ z => [atom_enc z]
  | TL l => 0 :: (fix go (l : list tok) : list Z :=
                    match l with
                    | [] => [1]
                    | x :: r => ser x ++ go r
                    end) l
  end.

(* parsing with an explicit stack; structural in the input *)
Fixpoint parse_go (inp : list Z) (cur : list tok) (stack : list (list tok)) : option (list tok) :=
  match inp with
  | [] => match stack with [] => Some (rev cur) | _ => None end
  | t :: r =>
    if t =? 0 then parse_go r [] (cur :: stack)
    else if t =? 1 then
      match stack with
      | [] => None
      | up :: st => parse_go r (TL (rev cur) :: up) st
      end
    else parse_go r (TZ (atom_dec t) :: cur) stack
  end.

Definition parse (inp : list Z) : option (list tok) := parse_go inp [] [].

(* accessors used by the per-model decoders *)
Definition tz (t : tok) : Z := match t with TZ z => z | TL _ => 0 end.
Definition tl (t : tok) : list tok := match t with TL l => l | TZ _ => [] end.
Definition tzs (t : tok) : list Z := map tz (tl t).
Definition tnth (l : list tok) (n : nat) : tok := nth n l (TL []).
Definition tbool (t : tok) : bool := negb (tz t =? 0).
Definition TB (b : bool) : tok := TZ (if b then 1 else 0).
Definition TZs (l : list Z) : tok := TL (map TZ l).
Definition topt (t : tok) : option tok :=
  match t with TL [x] => Some x | _ => None end.
Definition TOpt (o : option tok) : tok :=
  match o with Some x => TL [x] | None => TL [] end.
