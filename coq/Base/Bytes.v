(* Byte strings as lists of Z (each 0..255) and their reading as integers. *)
From Coq Require Import ZArith List Bool.
Import ListNotations.
Open Scope Z_scope.

Notation bytes := (list Z) (only parsing).

Definition blen (b : bytes) : Z := Z.of_nat (List.length b).
Definition take (n : Z) (b : bytes) : bytes := firstn (Z.to_nat n) b.
Definition drop (n : Z) (b : bytes) : bytes := skipn (Z.to_nat n) b.
Definition slice (pos n : Z) (b : bytes) : bytes := take n (drop pos b).
Definition zeros (n : Z) : bytes := repeat 0 (Z.to_nat n).
Definition ffs (n : Z) : bytes := repeat 255 (Z.to_nat n).

(* little-endian reading: head is the least significant byte *)
Fixpoint le_int (l : bytes) : Z :=
  match l with [] => 0 | b :: r => b + 256 * le_int r end.

Fixpoint to_le (n : nat) (x : Z) : bytes :=
  match n with O => [] | S m => (x mod 256) :: to_le m (x / 256) end.

(* big-endian = little-endian of the reversed list *)
Definition be_int (l : bytes) : Z := le_int (rev l).
Definition to_be (n : nat) (x : Z) : bytes := rev (to_le n x).

(* replace the n bytes at pos by new (new has length n; pos + n <= length) *)
Definition splice (pos : Z) (new b : bytes) : bytes :=
  take pos b ++ new ++ drop (pos + blen new) b.

(* grow to at least n bytes with zeros *)
Definition grow (n : Z) (b : bytes) : bytes := b ++ zeros (n - blen b).

Definition byte_ok (b : Z) : bool := (0 <=? b) && (b <? 256).
Definition bytes_ok (l : bytes) : bool := forallb byte_ok l.

Fixpoint bytes_eqb (a b : bytes) : bool :=
  match a, b with
  | [], [] => true
  | x :: a', y :: b' => (x =? y) && bytes_eqb a' b'
  | _, _ => false
  end.
