#!/bin/bash
# usage: all_seeds.sh [tier]  -- applies every stored seeded change to /repo in turn, runs the check of its property
# (and, for seeds stored as caught by another check, that one), reverts; prints one line per seed
tier="${1:-quick}"
cd /verif
for d in seeded/*/; do
  n=$(basename $d); pid=${n%%_*}
  extra=""
  [ "$n" = "C17_3" ] && extra="C06"
  [ "$n" = "C03_2" ] && extra="C07"
  res=""
  for p in $pid $extra; do
    out=$(tools/try_mutation.sh /verif/$d/patch.diff $p $tier 2>&1 | tail -1)
    res="$res $p:$out"
  done
  echo "$n $res"
done
