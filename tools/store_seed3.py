#!/usr/bin/env python3
"""store_seed3.py <PID> <k_src> <k_dst> <worktree> <needs> <caught-by>  (round 3: files mut_<PID>c_<k>.diff)"""
import json, os, shutil, sys
pid, ks, kd, wt, needs, caught = sys.argv[1:7]
d = f"/verif/seeded/{pid}_{kd}"
os.makedirs(d, exist_ok=True)
shutil.copy(f"{wt}/mut_{pid}c_{ks}.diff", f"{d}/patch.diff")
shutil.copy(f"{wt}/demo_{pid}c_{ks}.py", f"{d}/demo.py")
json.dump({"property": pid, "round": 3, "needs_to_manifest": needs,
           "confirmed": "tools/confirm_seed.sh in the scratch worktree: suite 140 passed with the patch; demo exits 1 with / 0 without",
           "run": f"tools/try_mutation.sh /verif/seeded/{pid}_{kd}/patch.diff {pid}", "result": caught}, open(f"{d}/meta.json", "w"), indent=1)
