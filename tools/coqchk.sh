#!/bin/bash
# independent re-check of the compiled development with the axioms it relies on (about one minute)
cd /verif/coq && coqchk -silent -o -Q . OV $(for i in 01 02 03 04 05 06 07 08 09 10 11 12 13 14 15 16 17 18; do echo OV.Properties.C$i; done) OV.Run OV.Extract
