#!/usr/bin/env python3
"""rebase_seeds.py <seed> ...  -- re-creates seeded/<seed>/patch.diff against /repo's HEAD when a later fix: commit touched
the same lines: in a scratch worktree of HEAD the stored patch is applied with a three-way merge (git apply --3way uses the
blob ids recorded in the patch); without conflicts the result becomes the new patch.diff once the suite passes with it and
the demo fails with / passes without it.  Conflicts are left to be resolved by hand (the worktree is kept and named)."""
import json, os, shutil, subprocess, sys
REPO = "/repo"


def sh(cmd, **kw):
    return subprocess.run(cmd, shell=True, capture_output=True, text=True, **kw)


def main():
    for seed in sys.argv[1:]:
        d = f"/verif/seeded/{seed}"
        wt = f"/var/tmp/rebase_{seed}"
        sh(f"git -C {REPO} worktree remove --force {wt}")
        x = sh(f"git -C {REPO} worktree add --detach {wt} HEAD")
        if x.returncode:
            print(seed, "worktree failed", x.stderr)
            continue
        env = dict(os.environ, PYTHONPATH=wt, PYTHONHASHSEED="0", PYTHONDONTWRITEBYTECODE="1")
        demo = os.path.join(wt, "demo_seed.py")
        shutil.copy(f"{d}/demo.py", demo)
        d0 = subprocess.run(["/venv/bin/python", demo], env=env, cwd=wt, capture_output=True).returncode
        x = sh(f"git -C {wt} apply --3way {d}/patch.diff")
        conflicts = sh(f"git -C {wt} diff --name-only --diff-filter=U").stdout.split()
        if x.returncode or conflicts:
            print(f"{seed} CONFLICT in {conflicts} ({x.stderr.strip()[:200]}); worktree kept at {wt}")
            continue
        os.remove(demo)
        new = sh(f"git -C {wt} diff HEAD").stdout
        shutil.copy(f"{d}/demo.py", demo)
        d1 = subprocess.run(["/venv/bin/python", demo], env=env, cwd=wt, capture_output=True).returncode
        os.remove(demo)
        s = subprocess.run(["/venv/bin/python", "-m", "pytest", "-q", "-p", "no:cacheprovider", "-x"], env=env, cwd=wt,
                           capture_output=True, text=True)
        last = (s.stdout.strip().splitlines() or ["?"])[-1]
        ok = d0 == 0 and d1 != 0 and " passed" in last and "failed" not in last
        print(f"{seed} demo without={d0} with={d1}; suite: {last}; {'REBASED' if ok else 'NOT CONFIRMED'}")
        if ok:
            open(f"{d}/patch.diff", "w").write(new)
            m = json.load(open(f"{d}/meta.json"))
            head = sh(f"git -C {REPO} rev-parse --short HEAD").stdout.strip()
            m["rebased"] = f"onto {head} by tools/rebase_seeds.py (three-way apply; suite and demo re-confirmed)"
            json.dump(m, open(f"{d}/meta.json", "w"), indent=1)
        sh(f"git -C {REPO} worktree remove --force {wt}")
    sh(f"git -C {REPO} worktree prune")


if __name__ == "__main__":
    main()
