#!/usr/bin/env python3
"""store_seed5.py <results file>  -- stores the round-5 seeds (mut_<PID>e_<k>.diff / demo_<PID>e_<k>.py in /tmp/wt_<PID>e) as
/verif/seeded/<PID>_<12+k>/"""
import json, os, re, shutil, sys
NEEDS = {
 "C01e_1": "emplace_bytes returns early for empty data: a RESERVED parameter / zero-size object as LAST object of the PDU",
 "C01e_2": "an END-OF-PDU-FIELD with MAX-NUMBER-OF-ITEMS given more items than that",
 "C02e_1": "ENV-DATA-DESC bound to the FIRST DTC parameter of that name: repeated items carrying different trouble codes",
 "C02e_2": "a TEXTTABLE scale covering a range with a COMPU-INVERSE-VALUE other than its lower limit",
 "C03e_1": "a BYTE-SIZE structure whose parameters are listed out of wire order and fill the declared size",
 "C03e_2": "a terminated MIN-MAX object of exactly MAX-LENGTH followed by a byte equal to the terminator",
 "C04e_1": "an explicit TABLE-KEY contradicting the row of the TABLE-STRUCT value; two TABLE-STRUCTs of one key naming different rows",
 "C04e_2": "an unknown entry in a structure behind an ENV-DATA-DESC whose trouble code has only ALL-VALUE environment data",
 "C05e_1": "a DYNAMIC-LENGTH-FIELD whose count announces more items than the PDU holds, cut at an item boundary",
 "C05e_2": "a BCD-P object whose PDU holds a nibble A..F",
 "C06e_1": "a RESERVED parameter directly behind the constants and a message whose reserved bits are set",
 "C06e_2": "two layers sharing a service by inheritance with different global negative responses, decoded in a particular order",
 "C07e_1": "SCALE-LINEAR asked about 5.0 before 5 (a cache keyed by the value)",
 "C07e_2": "a LINEAR / SCALE-LINEAR scale with non-zero slope which also carries a COMPU-INVERSE-VALUE",
 "C08e_1": "a STRUCTURE whose BYTE-SIZE exceeds the static size of its parameters",
 "C08e_2": "a LENGTH-KEY / TABLE-KEY of the request used one nesting level deeper and left out by the caller",
 "C09e_1": "two parents exposing one name, one of which only inherits the object from a layer of lower priority type",
 "C09e_2": "a NOT-INHERITED entry naming an object whose short name named lists rename (keyword, leading digit, list method)",
 "C10e_1": "the file of a derived layer added before the file of its parents; a parent which only inherits the referenced object",
 "C10e_2": "two parents of equal priority defining different objects under one name which an SNREF of the layer names",
 "C11e_1": "an SDG which borrows another SDG's caption by SDG-CAPTION-REF",
 "C11e_2": "a rational coefficient which needs more than 12 significant digits",
 "C12e_1": "one reassembler reading a log which was rotated into two files inside a transfer",
 "C12e_2": "a candump -a log (ASCII column behind the data)",
 "C13e_1": "frames of transfers on two ids interleaved (a state object shared by all ids)",
 "C13e_2": "a consumer which does not resume decode_rx_frame() behind the first telegram",
 "C14e_1": "a request loop cut short by a send failure and run again on the same matcher",
 "C14e_2": "a real-valued identification parameter of large magnitude (relative instead of absolute tolerance)",
 "C15e_1": "a COMPARAM-REF added to a loaded database, then refresh() (memoised per layer)",
 "C15e_2": "a CP_CANFDTxMaxDataLength value which gives TX_DL without the literal CANFD",
 "C16e_1": "pop() handed an item's name instead of a position",
 "C16e_2": "items named keys / values / items / get (methods the class adds on top of list)",
 "C17e_1": "a COMPU-DEFAULT-VALUE for internal values no scale covers, decoded in non-strict mode below the layer",
 "C17e_2": "a description fault reported as plain OdxError (illegal encoding), layer-level decode in non-strict mode",
 "C18e_1": "a deleted service standing in front of a renamed one (a generator consumed by the first membership test)",
 "C18e_2": "NOT-INHERITED lists united over all PARENT-REFs: a second parent providing what the first excludes",
}
FIRST_CAUGHT = {"C01e_1", "C02e_1", "C03e_2", "C05e_1", "C05e_2", "C07e_2", "C08e_1", "C09e_1", "C10e_1", "C10e_2", "C13e_1", "C16e_2"}
OTHER = {"C02e_2": "C07", "C18e_2": "C09"}
final = {}
for line in open(sys.argv[1]):
    m = re.match(r"(C\d\de_\d) (.*)", line)
    if m:
        final[m.group(1)] = m.group(2).strip()
for name, needs in sorted(NEEDS.items()):
    pid, k = name[:3], int(name[-1])
    wt = f"/tmp/wt_{pid}e"
    d = f"/verif/seeded/{pid}_{12 + k}"
    os.makedirs(d, exist_ok=True)
    shutil.copy(f"{wt}/mut_{name}.diff", f"{d}/patch.diff")
    shutil.copy(f"{wt}/demo_{name}.py", f"{d}/demo.py")
    res = final.get(name, "")
    own = re.search(rf"{pid}:exit=(\d)", res)
    caught_own = bool(own and own.group(1) == "1")
    caught_any = "exit=1" in res
    if name in FIRST_CAUGHT:
        result = "caught at once"
    elif caught_own:
        result = "missed at first, caught after strengthening the check"
    elif caught_any:
        result = f"caught by the check of {OTHER.get(name, 'another property')} (the change sits in code that check covers)"
    else:
        result = "NOT CAUGHT"
    json.dump({"property": pid, "round": 5, "needs_to_manifest": needs,
               "confirmed": "tools/par_seeds.py --confirm in a scratch worktree of HEAD: suite 140 passed with the patch; demo exits 1 with / 0 without",
               "run": f"tools/par_seeds.py {pid}_{12 + k}=/verif/seeded/{pid}_{12 + k}/patch.diff:{pid}" + (f",{OTHER[name]}" if name in OTHER else ""),
               "result": result, "final_run": res[:300]}, open(f"{d}/meta.json", "w"), indent=1)
    print(name, "->", d, result)
