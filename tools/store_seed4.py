#!/usr/bin/env python3
"""store_seed4.py <results file of par_seeds.py>  -- stores the round-4 seeds (files mut_<PID>d_<k>.diff / demo_<PID>d_<k>.py in
/tmp/wt_<PID>d) as /verif/seeded/<PID>_<9+k>/ with the outcome of the first evaluation (FIRST) and of the given final run"""
import json, os, re, shutil, sys

NEEDS = {
 "C01d_1": "an ENV-DATA-DESC which lists the trouble-code specific ENV-DATA in front of the ALL-VALUE one",
 "C01d_2": "a multiplexer case with an OPEN lower limit, selected by name",
 "C01d_3": "a LINEAR compu method with an offset and a denominator other than 1",
 "C02d_1": "a VALUE parameter with a PHYSICAL-DEFAULT-VALUE which the caller leaves out",
 "C02d_2": "a MIN-MAX-LENGTH object which is exactly as long as its MAX-LENGTH",
 "C02d_3": "the length specifier of a LEADING-LENGTH-INFO-TYPE object in a little-endian / positioned layout",
 "C03d_1": "a RAT-FUNC compu method whose denominator polynomial is not constant",
 "C03d_2": "signed integers whose most significant bit is set (decode)",
 "C03d_3": "a LEADING-LENGTH-INFO-TYPE object holding UTF-16 text with characters outside the basic plane",
 "C04d_1": "fixed-size string objects given strings which fit in characters but not in bytes",
 "C04d_2": "a multiplexer which is not the first object, a case without structure, a positioned parameter behind it",
 "C04d_3": "a MATCHING-REQUEST-PARAM of several bytes and a request which ends inside the mirrored range",
 "C05d_1": "a TABLE-KEY whose key data object is a text and a PDU with a key no row has",
 "C05d_2": "a RESERVED parameter as last parameter and a PDU which ends in front of / inside it",
 "C05d_3": "a STATIC-FIELD whose items have a size which depends on the PDU",
 "C06d_1": "a service with SID 0x00 beside a service without constant prefix; ServiceBinner.__getitem__",
 "C06d_2": "a response which mirrors variable request bytes in front of a constant; non-strict mode on a fresh layer",
 "C06d_3": "an NRC-CONST followed by a parameter without explicit position",
 "C07d_1": "a continuous decreasing SCALE-LINEAR method with a plateau (slope 0, COMPU-INVERSE-VALUE)",
 "C07d_2": "a LINEAR method with integer physical type, fractional slope and limits whose images are no integers",
 "C07d_3": "a TEXTTABLE whose texts carry leading / trailing blanks",
 "C08d_1": "a negative response which ends in an NRC-CONST not overlapped by a VALUE parameter",
 "C08d_2": "a LENGTH-KEY left out for a signed integer of PARAM-LENGTH-INFO-TYPE",
 "C08d_3": "a value passed for a RESERVED parameter (a decoded message handed back to the encoder)",
 "C09d_1": "a PROTOCOL layer with a PARENT-REF to an ECU-SHARED-DATA layer",
 "C09d_2": "NOT-INHERITED-DOPS naming a multiplexer, NOT-INHERITED-TABLES naming a table of the same name",
 "C09d_3": "an inherited service marked IS-FINAL which the layer overrides locally",
 "C10d_1": "retarget_snrefs with references owned by an ECU-SHARED-DATA parent",
 "C10d_2": "a typed reference whose id names an object of another kind in the own layer and one of the right kind in a sibling",
 "C10d_3": "PROTOCOL-SNREF of a diag comm naming a protocol the layer does not inherit from; an unrelated container with a protocol of that name",
 "C11d_1": "a PARENT-REF with DOCREF=<layer> DOCTYPE=LAYER",
 "C11d_2": "an SDG whose SD elements and nested SDGs are interleaved",
 "C11d_3": "a container whose short name starts with an underscore, loaded from the archive",
 "C12d_1": "telegrams are kept by the consumer and looked at after later transfers on the same id",
 "C12d_2": "telegrams of 4090..4095 bytes with a padded last frame",
 "C12d_3": "active decoder: a transfer of exactly 256 consecutive frames directly followed by another first frame",
 "C13d_1": "a transfer of more than 15 consecutive frames after a fault",
 "C13d_2": "snoop: flow control frames with reserved flow status values",
 "C14d_1": "identification services whose short name starts with a digit or is the name of a list method",
 "C14d_2": "replies handed over in a re-used bytearray, caching on",
 "C14d_3": "identification by a parameter of a GLOBAL-NEG-RESPONSE, the service having a NEG-RESPONSE of its own",
 "C15d_1": "a COMPARAM-REF restricted to a PROT-STACK-SNREF and a PROTOCOL-SNREF",
 "C15d_2": "two parameters of different COMPARAM-SUBSETs with the same short name",
 "C15d_3": "CAN receive id 0",
 "C16d_1": "items which are false in a boolean context",
 "C16d_2": "extend() with an object which cannot be named behind proper items",
 "C16d_3": "insert in front of existing items, later pop() without argument",
 "C17d_1": "a message only the global negative response decodes, layer-level decode in non-strict mode",
 "C17d_2": "odxraise guarded by something other than the module-level flag",
 "C18d_1": "compare A -db B C: the second comparison",
 "C18d_2": "a parameter's byte position edited so that it moves behind another parameter",
 "C18d_3": "the list tool asked for some services only (--services)",
}
FIRST_CAUGHT = {"C01d_3", "C02d_1", "C02d_2", "C02d_3", "C03d_2", "C04d_1", "C05d_2", "C05d_3", "C07d_2", "C08d_1", "C08d_2", "C09d_1",
                "C10d_1", "C12d_2", "C13d_1", "C15d_2", "C16d_3", "C17d_1", "C17d_2"}
final = {}
for line in open(sys.argv[1]):
    m = re.match(r"(C\d\dd_\d) (.*)", line)
    if m:
        final[m.group(1)] = m.group(2).strip()
for name, needs in sorted(NEEDS.items()):
    pid, k = name[:3], int(name[-1])
    wt = f"/tmp/wt_{pid}d"
    d = f"/verif/seeded/{pid}_{9 + k}"
    os.makedirs(d, exist_ok=True)
    shutil.copy(f"{wt}/mut_{name}.diff", f"{d}/patch.diff")
    shutil.copy(f"{wt}/demo_{name}.py", f"{d}/demo.py")
    res = final.get(name, "")
    caught_now = "exit=1" in res
    json.dump({"property": pid, "round": 4, "needs_to_manifest": needs,
               "confirmed": "tools/par_seeds.py --confirm-only in a scratch worktree of HEAD: suite 140 passed with the patch; demo exits 1 with / 0 without",
               "run": f"tools/par_seeds.py {pid}_{9 + k}=/verif/seeded/{pid}_{9 + k}/patch.diff:{pid}",
               "result": ("caught at once" if name in FIRST_CAUGHT else "missed at first, caught after strengthening the check") if caught_now
               else "NOT CAUGHT", "final_run": res[:300]}, open(f"{d}/meta.json", "w"), indent=1)
    print(name, "->", d, "caught" if caught_now else "MISSED")
