#!/bin/bash
# usage: multi_seed.sh "C01 C02" "1 2 3"
for p in $1; do for sd in $2; do
  VERIF_SEED=$sd ./check $p > /tmp/ms_${p}_$sd.txt 2>&1; rc=$?
  echo "$p seed=$sd exit=$rc $(grep -c '^VIOLATION' /tmp/ms_${p}_$sd.txt) violations"
  grep -A1 '^VIOLATION' /tmp/ms_${p}_$sd.txt | grep '^  (' | cut -c1-220 | sort | uniq -c | sort -rn | head -4
done; done
