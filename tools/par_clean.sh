#!/bin/bash
# usage: par_clean.sh [tier] [seedlist]  -- every check on the unchanged tree, in parallel on copies (see par_seeds.py)
# prints one line per check; all must be exit=0
tier="${1:-quick}"
jobs=""
for p in C01 C02 C03 C04 C05 C06 C07 C08 C09 C10 C11 C12 C13 C14 C15 C16 C17 C18; do jobs="$jobs clean_$p=-:$p"; done
python3 /verif/tools/par_seeds.py -j 9 --tier "$tier" $jobs
