#!/usr/bin/env python3
"""store_seed6.py  -- stores the seeds of the sixth (mini) round (mut_<PID>f_<k>.diff / demo_<PID>f_<k>.py in /tmp/wt_<PID>f) as
/verif/seeded/<PID>_<14+k>/"""
import json, os, shutil
NEEDS = {
 "C03f_1": "a ZERO-terminated two-byte string whose last character has a zero low byte (U+0100): a misaligned 00 00 overlapping the aligned terminator",
 "C03f_2": "a continuous SCALE-LINEAR method whose decimal coefficients meet only up to floating point rounding (exact != instead of a tolerance)",
 "C07f_1": "a RAT-FUNC with an integral result type and function values which are no integers (truncation instead of rounding)",
 "C07f_2": "LINEAR on integers above 2^53 with an explicit denominator (rounding on a float instead of the exact quotient)",
 "C12f_1": "transfers in progress on two ids at the same time (one state object shared by all ids)",
 "C12f_2": "CAN-FD frames in the compact candump log format (the flags nibble behind ## taken for data)",
 "C14f_1": "cache on; two candidates whose identification services share a short name but send different request bytes",
 "C14f_2": "a pattern of several matching parameters where an earlier one mismatches and the last one matches",
 "C16f_1": "the very same object twice in a list; pop / remove of one occurrence",
 "C16f_2": "a gap in the numbering of equally named items (pop of name_2, then another item of that name)",
 "C18f_1": "a rename in a layer whose services are not defined in alphabetical order",
 "C18f_2": "a layer with a SINGLE-ECU-JOB beside its services (the overview counts diag-comms)",
}
FIRST_MISSED = {"C03f_2": "decimal SCALE-LINEAR data object added to REAL_DOPS (C07's decimal probe caught it already)",
                "C14f_1": "candidates with their own request bytes under the same service names (layout 2 of c14.py)",
                "C18f_1": "services defined in descending order of their names",
                "C18f_2": "a SINGLE-ECU-JOB in the family document"}
final = {}
for line in open("/verif/out/round6_final.txt"):
    name, _, rest = line.partition(" ")
    final[name] = rest.strip()
for name, needs in sorted(NEEDS.items()):
    pid, k = name[:3], int(name[-1])
    wt = f"/tmp/wt_{pid}f"
    d = f"/verif/seeded/{pid}_{14 + k}"
    os.makedirs(d, exist_ok=True)
    shutil.copy(f"{wt}/mut_{name}.diff", f"{d}/patch.diff")
    shutil.copy(f"{wt}/demo_{name}.py", f"{d}/demo.py")
    meta = {"property": pid, "round": 6, "needs_to_manifest": needs,
            "confirmed": "tools/par_seeds.py --confirm in a scratch worktree of HEAD: suite 140 passed with the patch; demo exits 1 with / 0 without",
            "run": f"tools/par_seeds.py {pid}_{14 + k}=/verif/seeded/{pid}_{14 + k}/patch.diff:{pid}",
            "result": ("missed at first; caught after: " + FIRST_MISSED[name]) if name in FIRST_MISSED else "caught at once",
            "final_run": final.get(name, "")[:400]}
    json.dump(meta, open(f"{d}/meta.json", "w"), indent=1)
    print(d)
