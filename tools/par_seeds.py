#!/usr/bin/env python3
"""par_seeds.py [-j N] [--tier quick] [--confirm] [job ...]

Runs seeded source changes against the checks in parallel, never touching /repo or /verif:
every worker owns a copy of /verif (under /var/tmp/vpool/<k>) and a scratch worktree of /repo's
HEAD (under /var/tmp/rpool/<k>); the check is pointed at the worktree through VERIF_REPO.

job = <name>=<patch>:<PID>[,<PID>...][:<demo>]   e.g. C01d_1=/tmp/wt_C01d/mut_C01d_1.diff:C01
      (patch "-" = no change: runs the checks on copies against an unchanged worktree, e.g. all=-:C01,C02)
Without jobs: every /verif/seeded/<id>_<k>/patch.diff against the check of its property.
With --confirm and a demo: also checks that the suite passes with the patch, and that the demo
fails with / passes without it.
Prints one line per job:  <name> <PID>:exit=<rc> <first VIOLATION line> ...
The pools are removed at the end.
"""
import concurrent.futures as cf
import glob
import os
import queue
import shutil
import subprocess
import sys

VERIF = "/verif"
REPO = "/repo"
# one pair of pools per invocation, so that two invocations never share a worker directory
VPOOL = "/var/tmp/vpool_%d" % os.getpid()
RPOOL = "/var/tmp/rpool_%d" % os.getpid()
EXTRA = {"C17_3": ["C06"], "C03_2": ["C07"], "C02_14": ["C07"], "C18_14": ["C09"]}


def sh(cmd, **kw):
    return subprocess.run(cmd, shell=True, capture_output=True, text=True, **kw)


def setup(n):
    for k in range(n):
        v, r = f"{VPOOL}/{k}", f"{RPOOL}/{k}"
        os.makedirs(VPOOL, exist_ok=True)
        os.makedirs(RPOOL, exist_ok=True)
        sh(f"git -C {REPO} worktree remove --force {r}")
        shutil.rmtree(r, ignore_errors=True)
        x = sh(f"git -C {REPO} worktree add --detach {r} HEAD")
        if x.returncode:
            sys.exit("worktree: " + x.stderr)
        sh(f"rsync -a --delete --exclude .git --exclude out --exclude seeded --exclude .build.lock {VERIF}/ {v}/")
        os.makedirs(f"{v}/out", exist_ok=True)


def teardown(n):
    for k in range(n):
        sh(f"git -C {REPO} worktree remove --force {RPOOL}/{k}")
        shutil.rmtree(f"{RPOOL}/{k}", ignore_errors=True)
        shutil.rmtree(f"{VPOOL}/{k}", ignore_errors=True)
    shutil.rmtree(VPOOL, ignore_errors=True)
    shutil.rmtree(RPOOL, ignore_errors=True)
    sh(f"git -C {REPO} worktree prune")


confirm_only = False


def run_job(job, slots, tier, confirm):
    name, patch, pids, demo = job
    k = slots.get()
    try:
        v, r = f"{VPOOL}/{k}", f"{RPOOL}/{k}"
        sh(f"git -C {r} checkout -q -- . && git -C {r} clean -fdq")
        res = [name]
        env = dict(os.environ, PYTHONPATH=r, PYTHONHASHSEED="0", PYTHONDONTWRITEBYTECODE="1")
        if confirm and demo:
            # the demo is copied into the worktree: python puts the script's directory first on sys.path
            ldemo = os.path.join(r, os.path.basename(demo))
            shutil.copy(demo, ldemo)
            d0 = subprocess.run(["/venv/bin/python", ldemo], env=env, cwd=r, capture_output=True).returncode
        x = sh(f"git -C {r} apply {patch}") if patch != "-" else sh("true")
        if x.returncode:
            return f"{name} APPLY-FAIL {x.stderr.strip()[:200]}"
        if confirm and demo:
            d1 = subprocess.run(["/venv/bin/python", ldemo], env=env, cwd=r, capture_output=True).returncode
            s = subprocess.run(["/venv/bin/python", "-m", "pytest", "-q", "-p", "no:cacheprovider", "-x"],
                               env=env, cwd=r, capture_output=True, text=True)
            last = (s.stdout.strip().splitlines() or ["?"])[-1]
            res.append(f"[demo without={d0} with={d1}; suite: {last}]")
        for pid in ([] if confirm_only else pids):
            e = dict(os.environ, VERIF_REPO=r)
            x = subprocess.run([f"{v}/check", pid, "--tier", tier], env=e, cwd=v, capture_output=True, text=True)
            vio = [l for l in x.stdout.splitlines() if l.startswith("VIOLATION")]
            # the message line follows the VIOLATION line
            msg = ""
            lines = x.stdout.splitlines()
            for i, l in enumerate(lines):
                if l.startswith("VIOLATION"):
                    msg = l.replace(v, "") + " " + (lines[i + 1].strip() if i + 1 < len(lines) else "")
                    break
            res.append(f"{pid}:exit={x.returncode} {'(%d violations) ' % len(vio) if vio else ''}{msg[:300]}")
        sh(f"git -C {r} checkout -q -- . && git -C {r} clean -fdq")
        return " ".join(res)
    finally:
        slots.put(k)


def main():
    args = sys.argv[1:]
    n, tier, confirm = 6, "quick", False
    jobs = []
    while args:
        a = args.pop(0)
        if a == "-j":
            n = int(args.pop(0))
        elif a == "--tier":
            tier = args.pop(0)
        elif a == "--confirm":
            confirm = True
        elif a == "--confirm-only":
            global confirm_only
            confirm = confirm_only = True
        else:
            name, rest = a.split("=", 1)
            parts = rest.split(":")
            jobs.append((name, parts[0], parts[1].split(","), parts[2] if len(parts) > 2 else None))
    if not jobs:
        for d in sorted(glob.glob(f"{VERIF}/seeded/*/")):
            nm = os.path.basename(d.rstrip("/"))
            pid = nm.split("_")[0]
            jobs.append((nm, d + "patch.diff", [pid] + EXTRA.get(nm, []), None))
    setup(n)
    slots = queue.Queue()
    for k in range(n):
        slots.put(k)
    try:
        with cf.ThreadPoolExecutor(n) as ex:
            futs = [ex.submit(run_job, j, slots, tier, confirm) for j in jobs]
            for f in futs:
                print(f.result(), flush=True)
    finally:
        teardown(n)


if __name__ == "__main__":
    main()
