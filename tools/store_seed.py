#!/usr/bin/env python3
"""store_seed.py <PID> <k> <worktree> <needs> <caught-by>"""
import json, os, shutil, sys
pid, k, wt, needs, caught = sys.argv[1:6]
d = f"/verif/seeded/{pid}_{k}"
os.makedirs(d, exist_ok=True)
shutil.copy(f"{wt}/mut_{pid}_{k}.diff", f"{d}/patch.diff")
shutil.copy(f"{wt}/demo_{pid}_{k}.py", f"{d}/demo.py")
json.dump({"property": pid, "needs_to_manifest": needs,
           "confirmed": "tools/confirm_seed.sh in the scratch worktree: suite 140 passed with the patch; demo exits 1 with / 0 without",
           "run": f"tools/try_mutation.sh seeded/{pid}_{k}/patch.diff {pid}", "result": caught}, open(f"{d}/meta.json", "w"), indent=1)
