#!/bin/bash
# usage: confirm_seed.sh <worktree> <patch> <demo> : confirms suite passes with patch, demo fails with / passes without
wt="$1"; patch="$2"; demo="$3"
cd "$wt" || exit 2
git checkout -q -- . 
PYTHONPATH="$wt" /venv/bin/python "$demo" >/dev/null 2>&1; d0=$?
git apply "$patch" || { echo "APPLY-FAIL"; exit 2; }
PYTHONPATH="$wt" /venv/bin/python -m pytest -q -p no:cacheprovider -x 2>&1 | tail -1 > /tmp/cs_suite.txt
PYTHONPATH="$wt" /venv/bin/python "$demo" >/tmp/cs_demo.txt 2>&1; d1=$?
git checkout -q -- .
echo "demo_without=$d0 demo_with=$d1 suite: $(cat /tmp/cs_suite.txt)"
