#!/bin/bash
# usage: try_mutation.sh <patch.diff> <PID> [tier]  -- applies to /repo, runs the check, reverts
diff="$1"; pid="$2"; tier="${3:-quick}"
cd /repo || exit 2
if [ -n "$(git status --porcelain --untracked-files=no)" ]; then echo "repo dirty"; exit 2; fi
git apply "$diff" || { echo "patch does not apply"; exit 2; }
cd /verif && ./check "$pid" --tier "$tier" > /tmp/mut_out_$$.txt 2>&1; rc=$?
cd /repo && git checkout -- . 
grep -m3 -A1 "^VIOLATION" /tmp/mut_out_$$.txt; tail -1 /tmp/mut_out_$$.txt; echo "exit=$rc"; rm -f /tmp/mut_out_$$.txt
